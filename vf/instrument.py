"""Harness-side instrumentation of the real skchange classes (DESIGN §1.1).

No source hook lives in /repo: the layer is applied from here, at import time,
when SKCHANGE_VERIF=1 (the guard recorded in MANIFEST.hooks).  It consists of

  (b) icontract post-conditions K1..K4 on the public methods (collect mode: a
      failing condition records a witness and returns True so one defect does
      not mask the rest; every contract counts its evaluations and a check whose
      deciding contract was evaluated 0 times is inconclusive), and
  (c) the scorer-protocol trace: every BaseIntervalScorer.evaluate batch, with
      the detector call it happened in.
"""
import hashlib
import os
from collections import Counter

import numpy as np
import pandas as pd

HITS = []          # contract violations observed since the last drain()
COUNTS = Counter()  # contract evaluations
TRACE = None       # list of (scorer class, cuts array) while tracing is on
_DEPTH = [0]       # nesting depth of public detector calls
_PREDICT_LOG = []   # (id(detector), predict result) in call order, trimmed
_INSTALLED = [False]


class ContractBroken(Exception):
    pass


def _in_scope(obj):
    mod = type(obj).__module__ or ""
    return (mod.startswith("skchange.") and ".tests" not in mod) or mod.startswith("vf.")


def _in_scope_cls(cls):
    mod = cls.__module__ or ""
    return (mod.startswith("skchange.") and ".tests" not in mod) or mod.startswith("vf.")


def _hit(contract, prop, obj, msg):
    if len(HITS) < 2000:
        HITS.append({"contract": contract, "property": prop, "cls": type(obj).__name__,
                     "message": str(msg)[:1500]})


def drain():
    out = list(HITS)
    HITS.clear()
    return out


def _shape(X):
    if isinstance(X, np.ndarray):
        return (X.shape[0], 1 if X.ndim == 1 else X.shape[1])
    if isinstance(X, pd.Series):
        return (len(X), 1)
    if isinstance(X, pd.DataFrame):
        return X.shape
    a = np.asarray(X)
    return (a.shape[0], 1 if a.ndim == 1 else a.shape[1])


def data_digest(X):
    h = hashlib.blake2b(digest_size=8)
    if isinstance(X, (pd.DataFrame, pd.Series)):
        h.update(np.ascontiguousarray(X.to_numpy()).tobytes())
        h.update(repr(X.index).encode())
        h.update(repr(getattr(X, "columns", getattr(X, "name", None))).encode())
        h.update(str(X.dtypes if isinstance(X, pd.DataFrame) else X.dtype).encode())
    elif isinstance(X, np.ndarray):
        h.update(np.ascontiguousarray(X).tobytes())
        h.update(str((X.dtype, X.shape)).encode())
    else:
        h.update(repr(X).encode())
    return h.hexdigest()


def params_digest(obj):
    def render(v):
        if isinstance(v, np.ndarray):
            return ("nd", str(v.dtype), v.shape, v.tobytes())
        if isinstance(v, (list, tuple)):
            return (type(v).__name__, tuple(render(x) for x in v))
        if isinstance(v, dict):
            return tuple(sorted((k, render(x)) for k, x in v.items()))
        if hasattr(v, "get_params"):
            return (type(v).__name__, render(v.get_params(deep=False)))
        if callable(v):
            return getattr(v, "__name__", repr(v))
        return repr(v)

    try:
        return hashlib.blake2b(repr(render(obj.get_params(deep=False))).encode(),
                               digest_size=8).hexdigest()
    except Exception as ex:  # pragma: no cover
        return f"unrenderable:{type(ex).__name__}"


# ---------------------------------------------------------------- conditions
def k1_predict_wellformed(self, X, result):
    """K1 (C04): predict output is well-formed for this instance's hyper-parameters."""
    from vf.models.wellformed import problems

    if not _in_scope(self):
        return True
    COUNTS["K1"] += 1
    _SERIAL[0] += 1
    try:
        n, p = _shape(X)
        probs = problems(self, n, p, result)
    except Exception as ex:
        probs = [f"structural predicate could not read the output: {type(ex).__name__}: {ex}"]
    for pr in probs:
        _hit("K1", "C04", self, pr)
    try:
        _PREDICT_LOG.append((id(self), result.copy(deep=True)))
    except Exception:
        _PREDICT_LOG.append((id(self), result))
    if len(_PREDICT_LOG) > 64:
        del _PREDICT_LOG[:32]
    return True


_SERIAL = [0]


def snap_mark(self):
    return (id(self), _SERIAL[0])


def k2_transform_agrees(self, X, result, OLD):
    """K2 (C05): transform has X's index and equals the reference densification of
    the predict result observed inside the same call."""
    from vf.models.convert import reference_dense

    if not _in_scope(self):
        return True
    COUNTS["K2"] += 1
    # the predict() observed inside this very transform() call (monotone serial, not id alone)
    y = None
    for oid, res in reversed(_PREDICT_LOG):
        if oid == id(self):
            y = res
            break
    if y is None or OLD.mark[1] >= _SERIAL[0]:
        COUNTS["K2_no_predict_observed"] += 1
        y = None
    try:
        n, p = _shape(X)
        want_index = X.index if isinstance(X, (pd.DataFrame, pd.Series)) else pd.RangeIndex(n)
        if not isinstance(result, pd.DataFrame):
            _hit("K2", "C05", self, f"transform returned {type(result).__name__}")
            return True
        if not result.index.equals(want_index) or type(result.index) is not type(want_index):
            _hit("K2", "C05", self, f"dense index {result.index!r} is not X's index {want_index!r}")
        if y is not None:
            ref = reference_dense(y, n, p)
            got = result.to_numpy()
            if got.shape != ref.shape or not np.array_equal(got, ref):
                bad = np.argwhere(got != ref)[:5].tolist() if got.shape == ref.shape else "shape"
                _hit("K2", "C05", self,
                     f"dense labels differ from densified predict at {bad} "
                     f"(index type {type(want_index).__name__}); predict={y.to_dict('list')}")
    except Exception as ex:
        _hit("K2", "C05", self, f"could not compare: {type(ex).__name__}: {ex}")
    return True


def snap_data(X):
    return (data_digest(X), None)


def snap_params(self):
    return params_digest(self)


def snap_cuts(cuts):
    return data_digest(cuts) if isinstance(cuts, np.ndarray) else repr(cuts)


def k3_inputs_untouched(self, X, OLD):
    """K3 (C10): the caller's data and the hyper-parameters are not modified."""
    if not _in_scope(self):
        return True
    COUNTS["K3"] += 1
    if data_digest(X) != OLD.xd[0]:
        _hit("K3", "C10", self, "the caller's X was modified by the call")
    if params_digest(self) != OLD.pd:
        _hit("K3", "C10", self, "hyper-parameters changed during the call")
    return True


def k3_cuts_untouched(self, cuts, OLD):
    if not _in_scope(self):
        return True
    COUNTS["K3e"] += 1
    now = data_digest(cuts) if isinstance(cuts, np.ndarray) else repr(cuts)
    if now != OLD.cd:
        _hit("K3", "C10", self, "the caller's cuts array was modified by evaluate")
    return True


def _valid_cuts(self, cuts):
    """Validity per the scorer's documented rule (C13), or a reason string."""
    try:
        a = np.asarray(cuts)
    except Exception:
        return "not an array"
    if a.ndim == 1:
        a = a.reshape(1, -1)
    if a.ndim != 2:
        return f"ndim {a.ndim}"
    if not np.issubdtype(a.dtype, np.integer):
        return f"dtype {a.dtype}"
    k = getattr(self, "expected_cut_entries", 2)
    if a.shape[1] != k:
        return f"width {a.shape[1]} != {k}"
    if a.shape[0] == 0:
        return None
    X = getattr(self, "_X", None)
    n = len(X) if X is not None else None
    ai = a.astype(object)  # exact integers: no wrap-around for unsigned dtypes
    if n is not None and (min(ai.ravel()) < 0 or max(ai.ravel()) > n):
        return f"positions outside 0..{n}"
    d = np.diff(ai, axis=1)
    ms = self.min_size or 1
    from skchange.anomaly_scores.base import BaseLocalAnomalyScore

    if isinstance(self, BaseLocalAnomalyScore):
        if (d < 1).any():
            return "not strictly increasing"
        if (d[:, 1] < ms).any() or ((d[:, 0] + d[:, 2]) < ms).any():
            return "inner / surrounding size below min_size"
    elif (d < ms).any():
        return f"spacing below min_size={ms}"
    return None


AUDIT = {"rate": 0.0}
import random as _random

_AUDIT_RNG = _random.Random(12345)
_TOL_CACHE = {}


def _desc_of(obj):
    """Model descriptor of a built-in scorer *instance* (None for anything else)."""
    name = type(obj).__name__
    builtin = ("L2Cost", "GaussianVarCost", "GaussianCovCost")
    if type(obj).__module__.startswith("vf."):
        return None
    if name in builtin:
        return ("cost", name, obj.param)
    if name == "CUSUM":
        return ("cusum",)
    if name == "L2Saving":
        return ("l2saving",)
    inner = getattr(obj, "cost", None) if name in ("ChangeScore", "LocalAnomalyScore") else (
        getattr(obj, "baseline_cost", None) if name == "Saving" else None)
    if inner is not None and type(inner).__name__ in builtin and not type(inner).__module__.startswith("vf."):
        kind = {"ChangeScore": "change", "LocalAnomalyScore": "local", "Saving": "saving"}[name]
        return (kind, type(inner).__name__, inner.param)
    return None


def _k5_audit(self, cuts, result):
    """K5 (C01, C06): one sampled row of an evaluate() batch requested by whatever workload is
    running must lie in the interval-valued direct recomputation from X[s:e] (DESIGN s2)."""
    try:
        from vf.models import costs as M
        from vf.models import scores as SM

        desc = _desc_of(self)
        if desc is None:
            return
        X = np.asarray(self._X, dtype=float)
        if X.ndim == 1:
            X = X.reshape(-1, 1)
        key = (id(self._X), X.shape)
        tol = _TOL_CACHE.get(key)
        # the cache must be validated by content: the pooled-surroundings cost of a local anomaly
        # score is refitted per cut on arrays that share id, shape and leading rows
        if tol is None or tol.Xl.shape != X.shape or not np.array_equal(tol.Xl, X.astype(tol.Xl.dtype)):
            tol = M.DataTol(X)
            _TOL_CACHE.clear()
            _TOL_CACHE[key] = tol
        a = np.asarray(cuts)
        a = a.reshape(1, -1) if a.ndim == 1 else a
        i = _AUDIT_RNG.randrange(a.shape[0])
        iv = SM.score_interval(desc, X, tol, tuple(int(c) for c in a[i]))
        COUNTS["K5"] += 1
        if iv is None:
            COUNTS["K5_singular_skipped"] += 1
            return
        row = np.asarray(result)[i]
        if not (np.all(np.isfinite(row)) and np.all(row >= iv[0]) and np.all(row <= iv[1])):
            _hit("K5", "C01", self, f"{type(self).__name__}{desc[1:2]} evaluate row {a[i].tolist()} = "
                 f"{row.tolist()} outside the direct recomputation "
                 f"[{np.asarray(iv[0]).tolist()}, {np.asarray(iv[1]).tolist()}] (n={X.shape[0]}, p={X.shape[1]})")
    except Exception as ex:  # the audit must never disturb the monitored program
        COUNTS["K5_errors"] += 1


def k4_evaluate_sound(self, cuts, result):
    """K4 (C13, C01): a normal return implies the cuts were valid, and the result
    has one row per cut and p (univariate) or 1 (multivariate) columns."""
    if TRACE is not None:
        try:
            TRACE.append((type(self).__name__, np.array(cuts, copy=True)))
        except Exception:
            pass
    if not _in_scope(self):
        return True
    COUNTS["K4"] += 1
    why = _valid_cuts(self, cuts)
    if why is not None:
        _hit("K4", "C13", self, f"evaluate returned normally for invalid cuts ({why}): "
             f"{np.asarray(cuts).tolist()!r:.300}")
        return True
    if AUDIT["rate"] and _AUDIT_RNG.random() < AUDIT["rate"]:
        _k5_audit(self, cuts, result)
    try:
        a = np.asarray(cuts)
        rows = 1 if a.ndim == 1 else a.shape[0]
        X = self._X
        p = 1 if getattr(X, "ndim", 2) == 1 else np.shape(X)[1]
        cols = 1 if getattr(self, "evaluation_type", "univariate") == "multivariate" else p
        if not isinstance(result, np.ndarray) or result.shape != (rows, cols):
            _hit("K4s", "C01", self, f"evaluate result shape {getattr(result, 'shape', None)} "
                 f"!= ({rows}, {cols})")
    except Exception as ex:
        _hit("K4s", "C01", self, f"could not read the evaluate result: {ex}")
    return True


def k6_penalty_family(n, p, result):
    """K6 (C15): a penalty family returns (alpha >= 0, betas >= 0 of length p)."""
    COUNTS["K6"] += 1
    try:
        alpha, betas = result
        betas = np.asarray(betas, dtype=float)
        ok = (np.isfinite(alpha) and alpha >= 0 and betas.shape == (p,)
              and np.all(np.isfinite(betas)) and np.all(betas >= -1e-12 * (1 + np.abs(betas).max())))
        if not ok:
            HITS.append({"contract": "K6", "property": "C15", "cls": "penalty",
                         "message": f"penalty family returned alpha={alpha}, betas={betas.tolist()} "
                                    f"for n={n}, p={p}"})
    except Exception as ex:
        HITS.append({"contract": "K6", "property": "C15", "cls": "penalty",
                     "message": f"unreadable penalty {result!r}: {ex}"})
    return True


def _patch_everywhere(original, replacement):
    """Rebind every skchange.* module attribute that *is* `original`."""
    import sys

    for name, mod in list(sys.modules.items()):
        if not name.startswith("skchange") or mod is None:
            continue
        for attr, val in list(vars(mod).items()):
            if val is original:
                setattr(mod, attr, replacement)


# ------------------------------------------------------------------- install
def install():
    if _INSTALLED[0] or os.environ.get("SKCHANGE_VERIF", "1") != "1":
        return False
    import icontract

    from skchange.base import BaseDetector, BaseIntervalScorer

    ens, snap = icontract.ensure, icontract.snapshot

    def depth_wrap(f):
        def wrapper(self, *a, **k):
            _DEPTH[0] += 1
            try:
                return f(self, *a, **k)
            finally:
                _DEPTH[0] -= 1
        wrapper.__name__ = f.__name__
        wrapper.__doc__ = f.__doc__
        wrapper.__wrapped__ = f
        return wrapper

    def deco(f, *contracts):
        for c in contracts:
            f = c(f)
        return f

    import skchange.anomaly_detectors  # noqa: F401  (all concrete classes must exist before
    import skchange.anomaly_detectors.anomalisers  # noqa: F401   their subclasses are walked)
    import skchange.anomaly_scores  # noqa: F401
    import skchange.change_detectors  # noqa: F401
    import skchange.change_scores  # noqa: F401
    import skchange.costs  # noqa: F401
    import vf.userdefs  # noqa: F401  (so that the user-defined programs are decorated too)

    def k3():
        return [ens(k3_inputs_untouched, error=ContractBroken), snap(snap_params, name="pd"),
                snap(snap_data, name="xd")]

    def subclasses(cls):
        out = []
        for c in cls.__subclasses__():
            out.append(c)
            out.extend(subclasses(c))
        return out

    def forward_X(orig):
        def method(self, X):
            return orig(self, X)
        return method

    def forward_Xy(orig):
        def method(self, X, y=None):
            return orig(self, X, y)
        return method

    def forward_cuts(orig):
        def method(self, cuts):
            return orig(self, cuts)
        return method

    # icontract skips the contracts of a function that is already in progress in this
    # thread (its recursion guard is keyed by function).  A wrapped base-class method
    # would therefore go unchecked for every nested object (the cost inside a change
    # score, the change detector inside the anomaliser).  Each concrete class gets its
    # own forwarding function, so nesting across classes is observed.
    det_classes = [c for c in dict.fromkeys(subclasses(BaseDetector)) if _in_scope_cls(c)]
    for cls in det_classes:
        def get(name):
            return cls.__dict__.get(name) or getattr(BaseDetector, name)
        cls.predict = deco(forward_X(get("predict")),
                           ens(k1_predict_wellformed, error=ContractBroken), *k3())
        cls.transform = deco(forward_X(get("transform")),
                             ens(k2_transform_agrees, error=ContractBroken),
                             snap(snap_mark, name="mark"), *k3())
        cls.transform_scores = deco(forward_X(get("transform_scores")), *k3())
        cls.fit = deco(forward_Xy(get("fit")), *k3())
        cls.update = deco(forward_Xy(get("update")), *k3())
    sc_classes = [c for c in dict.fromkeys(subclasses(BaseIntervalScorer)) if _in_scope_cls(c)]
    for cls in sc_classes:
        def get(name):
            return cls.__dict__.get(name) or getattr(BaseIntervalScorer, name)
        cls.fit = deco(forward_Xy(get("fit")), *k3())
        cls.evaluate = deco(
            forward_cuts(get("evaluate")),
            ens(k4_evaluate_sound, error=ContractBroken),
            ens(k3_cuts_untouched, error=ContractBroken), snap(snap_cuts, name="cd"))
    COUNTS["classes_decorated"] = len(det_classes) + len(sc_classes)
    from skchange.anomaly_detectors import mvcapa

    for fname in ("dense_mvcapa_penalty", "sparse_mvcapa_penalty", "intermediate_mvcapa_penalty",
                  "combined_mvcapa_penalty"):
        orig = getattr(mvcapa, fname)
        _patch_everywhere(orig, ens(k6_penalty_family, error=ContractBroken)(orig))
    _INSTALLED[0] = True
    return True


def start_trace():
    global TRACE
    TRACE = []


def stop_trace():
    global TRACE
    t, TRACE = TRACE, None
    return t or []
