"""Harness-side instrumentation of the real skchange classes (DESIGN §1.1).

No source hook lives in /repo: the layer is applied from here, at import time,
when SKCHANGE_VERIF=1 (the guard recorded in MANIFEST.hooks).  It consists of

  (b) icontract post-conditions K1..K4 on the public methods (collect mode: a
      failing condition records a witness and returns True so one defect does
      not mask the rest; every contract counts its evaluations and a check whose
      deciding contract was evaluated 0 times is inconclusive), and
  (c) the scorer-protocol trace: every BaseIntervalScorer.evaluate batch, with
      the detector call it happened in.
"""
import hashlib
import os
from collections import Counter

import numpy as np
import pandas as pd

HITS = []          # contract violations observed since the last drain()
COUNTS = Counter()  # contract evaluations
TRACE = None       # list of (scorer class, cuts array) while tracing is on
_DEPTH = [0]       # nesting depth of public detector calls
_LAST_PREDICT = {}
_INSTALLED = [False]


class ContractBroken(Exception):
    pass


def _in_scope(obj):
    mod = type(obj).__module__ or ""
    return (mod.startswith("skchange.") and ".tests" not in mod) or mod.startswith("vf.")


def _hit(contract, prop, obj, msg):
    if len(HITS) < 2000:
        HITS.append({"contract": contract, "property": prop, "cls": type(obj).__name__,
                     "message": str(msg)[:1500]})


def drain():
    out = list(HITS)
    HITS.clear()
    return out


def _shape(X):
    if isinstance(X, np.ndarray):
        return (X.shape[0], 1 if X.ndim == 1 else X.shape[1])
    if isinstance(X, pd.Series):
        return (len(X), 1)
    if isinstance(X, pd.DataFrame):
        return X.shape
    a = np.asarray(X)
    return (a.shape[0], 1 if a.ndim == 1 else a.shape[1])


def data_digest(X):
    h = hashlib.blake2b(digest_size=8)
    if isinstance(X, (pd.DataFrame, pd.Series)):
        h.update(np.ascontiguousarray(X.to_numpy()).tobytes())
        h.update(repr(X.index).encode())
        h.update(repr(getattr(X, "columns", getattr(X, "name", None))).encode())
        h.update(str(X.dtypes if isinstance(X, pd.DataFrame) else X.dtype).encode())
    elif isinstance(X, np.ndarray):
        h.update(np.ascontiguousarray(X).tobytes())
        h.update(str((X.dtype, X.shape)).encode())
    else:
        h.update(repr(X).encode())
    return h.hexdigest()


def params_digest(obj):
    def render(v):
        if isinstance(v, np.ndarray):
            return ("nd", str(v.dtype), v.shape, v.tobytes())
        if isinstance(v, (list, tuple)):
            return (type(v).__name__, tuple(render(x) for x in v))
        if isinstance(v, dict):
            return tuple(sorted((k, render(x)) for k, x in v.items()))
        if hasattr(v, "get_params"):
            return (type(v).__name__, render(v.get_params(deep=False)))
        if callable(v):
            return getattr(v, "__name__", repr(v))
        return repr(v)

    try:
        return hashlib.blake2b(repr(render(obj.get_params(deep=False))).encode(),
                               digest_size=8).hexdigest()
    except Exception as ex:  # pragma: no cover
        return f"unrenderable:{type(ex).__name__}"


# ---------------------------------------------------------------- conditions
def k1_predict_wellformed(self, X, result):
    """K1 (C04): predict output is well-formed for this instance's hyper-parameters."""
    from vf.models.wellformed import problems

    if not _in_scope(self):
        return True
    COUNTS["K1"] += 1
    try:
        n, p = _shape(X)
        probs = problems(self, n, p, result)
    except Exception as ex:
        probs = [f"structural predicate could not read the output: {type(ex).__name__}: {ex}"]
    for pr in probs:
        _hit("K1", "C04", self, pr)
    try:
        _LAST_PREDICT[id(self)] = result.copy(deep=True)
    except Exception:
        _LAST_PREDICT[id(self)] = result
    return True


def k2_transform_agrees(self, X, result):
    """K2 (C05): transform has X's index and equals the reference densification of
    the predict result observed inside the same call."""
    from vf.models.convert import reference_dense

    if not _in_scope(self):
        return True
    COUNTS["K2"] += 1
    y = _LAST_PREDICT.get(id(self))
    try:
        n, p = _shape(X)
        want_index = X.index if isinstance(X, (pd.DataFrame, pd.Series)) else pd.RangeIndex(n)
        if not isinstance(result, pd.DataFrame):
            _hit("K2", "C05", self, f"transform returned {type(result).__name__}")
            return True
        if not result.index.equals(want_index) or type(result.index) is not type(want_index):
            _hit("K2", "C05", self, f"dense index {result.index!r} is not X's index {want_index!r}")
        if y is not None:
            ref = reference_dense(y, n, p)
            got = result.to_numpy()
            if got.shape != ref.shape or not np.array_equal(got, ref):
                bad = np.argwhere(got != ref)[:5].tolist() if got.shape == ref.shape else "shape"
                _hit("K2", "C05", self,
                     f"dense labels differ from densified predict at {bad} "
                     f"(index type {type(want_index).__name__}); predict={y.to_dict('list')}")
    except Exception as ex:
        _hit("K2", "C05", self, f"could not compare: {type(ex).__name__}: {ex}")
    return True


def snap_data(X):
    return (data_digest(X), None)


def snap_params(self):
    return params_digest(self)


def snap_cuts(cuts):
    return data_digest(cuts) if isinstance(cuts, np.ndarray) else repr(cuts)


def k3_inputs_untouched(self, X, OLD):
    """K3 (C10): the caller's data and the hyper-parameters are not modified."""
    if not _in_scope(self):
        return True
    COUNTS["K3"] += 1
    if data_digest(X) != OLD.xd[0]:
        _hit("K3", "C10", self, "the caller's X was modified by the call")
    if params_digest(self) != OLD.pd:
        _hit("K3", "C10", self, "hyper-parameters changed during the call")
    return True


def k3_cuts_untouched(self, cuts, OLD):
    if not _in_scope(self):
        return True
    COUNTS["K3e"] += 1
    now = data_digest(cuts) if isinstance(cuts, np.ndarray) else repr(cuts)
    if now != OLD.cd:
        _hit("K3", "C10", self, "the caller's cuts array was modified by evaluate")
    return True


def _valid_cuts(self, cuts):
    """Validity per the scorer's documented rule (C13), or a reason string."""
    try:
        a = np.asarray(cuts)
    except Exception:
        return "not an array"
    if a.ndim == 1:
        a = a.reshape(1, -1)
    if a.ndim != 2:
        return f"ndim {a.ndim}"
    if not np.issubdtype(a.dtype, np.integer):
        return f"dtype {a.dtype}"
    k = getattr(self, "expected_cut_entries", 2)
    if a.shape[1] != k:
        return f"width {a.shape[1]} != {k}"
    if a.shape[0] == 0:
        return None
    X = getattr(self, "_X", None)
    n = len(X) if X is not None else None
    ai = a.astype(object)  # exact integers: no wrap-around for unsigned dtypes
    if n is not None and (min(ai.ravel()) < 0 or max(ai.ravel()) > n):
        return f"positions outside 0..{n}"
    d = np.diff(ai, axis=1)
    ms = self.min_size or 1
    from skchange.anomaly_scores.base import BaseLocalAnomalyScore

    if isinstance(self, BaseLocalAnomalyScore):
        if (d < 1).any():
            return "not strictly increasing"
        if (d[:, 1] < ms).any() or ((d[:, 0] + d[:, 2]) < ms).any():
            return "inner / surrounding size below min_size"
    elif (d < ms).any():
        return f"spacing below min_size={ms}"
    return None


def k4_evaluate_sound(self, cuts, result):
    """K4 (C13, C01): a normal return implies the cuts were valid, and the result
    has one row per cut and p (univariate) or 1 (multivariate) columns."""
    if TRACE is not None:
        try:
            TRACE.append((type(self).__name__, np.array(cuts, copy=True)))
        except Exception:
            pass
    if not _in_scope(self):
        return True
    COUNTS["K4"] += 1
    why = _valid_cuts(self, cuts)
    if why is not None:
        _hit("K4", "C13", self, f"evaluate returned normally for invalid cuts ({why}): "
             f"{np.asarray(cuts).tolist()!r:.300}")
        return True
    try:
        a = np.asarray(cuts)
        rows = 1 if a.ndim == 1 else a.shape[0]
        X = self._X
        p = 1 if getattr(X, "ndim", 2) == 1 else np.shape(X)[1]
        cols = 1 if getattr(self, "evaluation_type", "univariate") == "multivariate" else p
        if not isinstance(result, np.ndarray) or result.shape != (rows, cols):
            _hit("K4s", "C01", self, f"evaluate result shape {getattr(result, 'shape', None)} "
                 f"!= ({rows}, {cols})")
    except Exception as ex:
        _hit("K4s", "C01", self, f"could not read the evaluate result: {ex}")
    return True


# ------------------------------------------------------------------- install
def install():
    if _INSTALLED[0] or os.environ.get("SKCHANGE_VERIF", "1") != "1":
        return False
    import icontract

    from skchange.base import BaseDetector, BaseIntervalScorer

    ens, snap = icontract.ensure, icontract.snapshot

    def depth_wrap(f):
        def wrapper(self, *a, **k):
            _DEPTH[0] += 1
            try:
                return f(self, *a, **k)
            finally:
                _DEPTH[0] -= 1
        wrapper.__name__ = f.__name__
        wrapper.__doc__ = f.__doc__
        wrapper.__wrapped__ = f
        return wrapper

    def deco(f, *contracts):
        for c in contracts:
            f = c(f)
        return f

    k3 = [ens(k3_inputs_untouched, error=ContractBroken), snap(snap_params, name="pd"),
          snap(snap_data, name="xd")]
    BaseDetector.predict = deco(BaseDetector.predict,
                                ens(k1_predict_wellformed, error=ContractBroken), *k3)
    BaseDetector.transform = deco(BaseDetector.transform,
                                  ens(k2_transform_agrees, error=ContractBroken), *k3)
    for name in ("fit", "transform_scores", "update"):
        setattr(BaseDetector, name, deco(getattr(BaseDetector, name), *k3))
    BaseIntervalScorer.fit = deco(BaseIntervalScorer.fit, *k3)
    BaseIntervalScorer.evaluate = deco(
        BaseIntervalScorer.evaluate,
        ens(k4_evaluate_sound, error=ContractBroken),
        ens(k3_cuts_untouched, error=ContractBroken), snap(snap_cuts, name="cd"))
    _INSTALLED[0] = True
    return True


def start_trace():
    global TRACE
    TRACE = []


def stop_trace():
    global TRACE
    t, TRACE = TRACE, None
    return t or []
