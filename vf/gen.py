"""Shared workload catalogue: data kinds (DESIGN §3).  All |x| <= 1e4."""
import numpy as np

FLOAT_KINDS = [
    "noise", "mean_changes", "weak_changes", "var_changes", "spikes", "collective",
    "ramp", "offset", "scaled_small", "scaled_big", "heavy", "nested",
]
EXACT_KINDS = ["constant", "piecewise_const", "small_alphabet", "dyadic"]
# flat stretches of values that are NOT exactly representable: every cost-based score is zero only
# up to rounding error there (tiny negative scores, tuned thresholds that are slightly negative)
DEGENERATE_KINDS = ["flat", "steps"]
ALL_KINDS = FLOAT_KINDS + EXACT_KINDS + DEGENERATE_KINDS


def _positions(rng, n, k, lo=1):
    if n - lo < 1 or k <= 0:
        return []
    k = min(k, n - lo)
    return sorted(int(i) for i in rng.choice(np.arange(lo, n), size=k, replace=False))


def gen_data(rng, n, p, kind=None, boundary=None):
    """Return (X[n,p] float64, meta).

    `boundary` (optional int b): place events at the first/last admissible
    positions b and n-b when the kind has events.
    """
    if kind is None:
        kind = ALL_KINDS[int(rng.integers(len(ALL_KINDS)))]
    meta = {"kind": kind}
    X = rng.standard_normal((n, p))
    if kind == "noise":
        pass
    elif kind in ("mean_changes", "weak_changes"):
        k = int(rng.integers(0, 5))
        cpts = _positions(rng, n, k)
        if boundary and n > 2 * boundary and rng.random() < 0.5:
            cpts = sorted(set(cpts) | {boundary, n - boundary})
        size = (0.3, 1.5) if kind == "weak_changes" else (1.5, 10.0)
        level = np.zeros(p)
        edges = [0] + cpts + [n]
        for a, b in zip(edges[:-1], edges[1:]):
            X[a:b] += level
            jump = rng.uniform(*size, size=p) * rng.choice([-1, 1], size=p)
            jump *= rng.random(p) < 0.7
            level = level + jump
        meta["cpts"] = cpts
    elif kind == "var_changes":
        cpts = _positions(rng, n, int(rng.integers(0, 4)))
        edges = [0] + cpts + [n]
        for a, b in zip(edges[:-1], edges[1:]):
            X[a:b] *= float(rng.choice([0.1, 0.5, 1.0, 3.0, 10.0]))
        meta["cpts"] = cpts
    elif kind == "spikes":
        k = int(rng.integers(1, 4))
        pos = set(_positions(rng, n, k, lo=0))
        r = rng.random()
        if r < 0.25:
            pos.add(0)
        elif r < 0.5:
            pos.add(n - 1)
        elif r < 0.75 and n > 2:
            q = int(rng.integers(0, n - 1))
            pos |= {q, q + 1}
        for q in pos:
            cols = rng.random(p) < 0.6
            if not cols.any():
                cols[int(rng.integers(p))] = True
            X[q, cols] += rng.uniform(5, 30) * rng.choice([-1, 1])
        meta["spikes"] = sorted(pos)
    elif kind == "collective":
        k = int(rng.integers(1, 4))
        anoms = []
        t = 0 if rng.random() < 0.3 else int(rng.integers(0, max(1, n // 3)))
        for _ in range(k):
            if t >= n:
                break
            ln = int(rng.integers(1, max(2, n // 3)))
            e = min(n, t + ln)
            if rng.random() < 0.2:
                e = n
            cols = rng.random(p) < 0.5
            if not cols.any():
                cols[int(rng.integers(p))] = True
            X[t:e, cols] += rng.uniform(1.0, 8.0) * rng.choice([-1, 1])
            anoms.append([t, e])
            t = e if rng.random() < 0.4 else e + int(rng.integers(1, max(2, n // 4)))
        meta["anoms"] = anoms
    elif kind == "nested":
        # a long weak anomaly over many columns with a short strong one inside (or just before)
        X *= float(rng.choice([0.0, 0.1, 0.3, 1.0]))
        a = int(rng.integers(0, max(1, n // 4)))
        b = int(rng.integers(min(n, a + max(2, n // 2)), n + 1)) if n > 3 else n
        wide = rng.random(p) < 0.8
        if not wide.any():
            wide[:] = True
        X[a:b, wide] += rng.uniform(0.3, 1.0) * rng.choice([-1, 1])
        if b - a > 3:
            c = int(rng.integers(a, b - 1))
            d = min(b, c + int(rng.integers(1, max(2, (b - a) // 4))))
            X[c:d, int(rng.integers(p))] += rng.uniform(2.0, 5.0) * rng.choice([-1, 1])
            meta["anoms"] = [[a, b], [c, d]]
    elif kind == "ramp":
        X = X * 0.3 + np.linspace(0, rng.uniform(1, 20), n)[:, None] * rng.choice([-1, 1], size=p)
    elif kind == "offset":
        X = X + rng.choice([1e2, 1e3, -1e3], size=p)
        if rng.random() < 0.5 and n > 3:
            c = int(rng.integers(1, n))
            X[c:] += rng.uniform(1, 5)
    elif kind == "scaled_small":
        X = X * 1e-3
        if rng.random() < 0.5 and n > 3:
            X[int(rng.integers(1, n)):] += 5e-3
    elif kind == "scaled_big":
        X = X * 1e3
        if rng.random() < 0.5 and n > 3:
            X[int(rng.integers(1, n)):] += 5e3
    elif kind == "heavy":
        X = rng.standard_t(2, size=(n, p))
        X = np.clip(X, -1e3, 1e3)
    elif kind == "constant":
        X = np.tile(rng.integers(-3, 4, size=p).astype(float), (n, 1))
    elif kind == "piecewise_const":
        cpts = _positions(rng, n, int(rng.integers(1, 4)))
        X = np.zeros((n, p))
        edges = [0] + cpts + [n]
        for a, b in zip(edges[:-1], edges[1:]):
            X[a:b] = rng.integers(-3, 4, size=p).astype(float)
        meta["cpts"] = cpts
    elif kind == "flat":
        X = np.tile(rng.choice([0.1, 0.3, 1 / 3, 1e-3, 7.7, 123.456, -0.7], size=p), (n, 1))
    elif kind == "steps":
        cpts = _positions(rng, n, int(rng.integers(1, 4)))
        X = np.zeros((n, p))
        edges = [0] + cpts + [n]
        for a, b in zip(edges[:-1], edges[1:]):
            X[a:b] = rng.choice([0.1, 0.2, 0.3, 0.7, 1 / 3, 7.7, -0.7, 123.456], size=p)
        meta["cpts"] = cpts
    elif kind == "small_alphabet":
        X = rng.integers(0, 3, size=(n, p)).astype(float)
        if rng.random() < 0.5 and n > 3:
            c = int(rng.integers(1, n))
            X[c:] += int(rng.integers(1, 3))
    elif kind == "dyadic":
        X = rng.integers(-64, 65, size=(n, p)) / 16.0
        if rng.random() < 0.5 and n > 3:
            X[int(rng.integers(1, n)):] += 2.5
    else:
        raise KeyError(kind)
    X = np.ascontiguousarray(X, dtype=np.float64)
    # Unequal column scales (a quarter of the multi-column cases).  Decided from the data themselves, not from
    # `rng`, so that the random stream of every workload -- and the other three quarters of the cases -- stay
    # as they were: column j is multiplied by its own factor (integer factors for the exact kinds).
    if p >= 2 and n >= 1 and kind not in ("scaled_big", "heavy", "offset", "flat", "steps"):
        r2 = np.random.default_rng(int.from_bytes(X[:1].tobytes()[:8].ljust(8, b"\0"), "little") ^ (n * 1000003 + p))
        if r2.random() < 0.25:
            f = r2.choice([1.0, 2.0, 3.0], size=p) if kind in EXACT_KINDS else r2.choice([0.1, 0.5, 1.0, 2.0, 7.0], size=p)
            X = np.ascontiguousarray(X * f)
            meta["col_scales"] = f.tolist()
    return X, meta


def integer_data(rng, n, p, signal=True):
    """Integer-valued data (so int64 and float64 representations hold the same numbers)."""
    X = rng.integers(-3, 4, size=(n, p))
    if signal and n >= 6:
        a = int(rng.integers(1, n - 2))
        b = int(rng.integers(a + 1, n))
        X[a:b] += int(rng.integers(6, 15)) * int(rng.choice([-1, 1]))
    return X.astype(np.int64)
