"""Call histories in front of the call a check judges (shared by C07, C08, C09, C17).

The statements of the threshold-based detectors describe predict(X) in terms of X and the fitted
threshold only.  A detector that was fitted to other data, that has already predicted other data,
or that is handed the caller's *same object* again after the caller changed it in place must still
describe the values it is given now.  `prepare` returns the fitted detector and the object to pass to
the judged calls; the values of that object are always exactly X.
"""
import numpy as np
import pandas as pd

HISTORIES = [None, None, "fit_other", "same_object", "inplace"]


def pick(rng):
    return HISTORIES[int(rng.integers(len(HISTORIES)))]


def _other(seed, n, p, like):
    rng = np.random.default_rng(seed)
    Z = rng.standard_normal((n, p)) * (np.std(like) + 1e-12) + np.mean(like)
    if np.issubdtype(like.dtype, np.integer):
        Z = np.round(Z).astype(like.dtype)
    return Z


def prepare(det, X, hist, seed, nmin, frame=None):
    """det: unfitted detector; X: (n,p) array; returns (fitted det, object holding X's values).

    frame: None -> ndarray container, "df" -> DataFrame container ("series" for p == 1 callers pass
    their own container through `wrap`)."""
    n, p = X.shape
    wrap = (lambda a: pd.DataFrame(a)) if frame == "df" else (lambda a: a)
    if hist is None:
        obj = wrap(X.copy())
        det.fit(obj)
        return det, obj
    if hist == "fit_other":
        # trained on a series of another length (shorter or longer), then asked about X
        d = int(np.random.default_rng(seed).integers(-n // 2, n + 1))
        na = max(nmin, n + (d if d != 0 else 3))
        det.fit(wrap(_other(seed, na, p, X)))
        return det, wrap(X.copy())
    if hist == "same_object":
        # fit(obj); predict(longer other data); then the SAME obj again
        obj = wrap(X.copy())
        det.fit(obj)
        nb = n + int(np.random.default_rng(seed).integers(0, n + 1))
        det.predict(wrap(_other(seed + 1, nb, p, X)))
        return det, obj
    if hist == "inplace":
        # the caller's object holds other values while fitting (and a first predict) and is then
        # overwritten IN PLACE with X
        obj = wrap(_other(seed + 2, n, p, X))
        det.fit(obj)
        det.predict(obj)
        if isinstance(obj, pd.DataFrame):
            obj.iloc[:, :] = X
        else:
            obj[...] = X
        return det, obj
    raise KeyError(hist)
