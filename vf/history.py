"""Call histories in front of the call a check judges (shared by C07, C08, C09, C17).

The statements of the threshold-based detectors describe predict(X) in terms of X and the fitted
threshold only.  A detector that was fitted to other data, that has already predicted other data,
or that is handed the caller's *same object* again after the caller changed it in place must still
describe the values it is given now.  `prepare` returns the fitted detector and the object to pass to
the judged calls; the values of that object are always exactly X.
"""
import numpy as np
import pandas as pd

HISTORIES = [None, None, "fit_other", "same_object", "inplace", "reconfigured"]


def pick(rng):
    return HISTORIES[int(rng.integers(len(HISTORIES)))]


def _other(seed, n, p, like):
    rng = np.random.default_rng(seed)
    Z = rng.standard_normal((n, p)) * (np.std(like) + 1e-12) + np.mean(like)
    if np.issubdtype(like.dtype, np.integer):
        Z = np.round(Z).astype(like.dtype)
    return Z


def _shifted(param):
    """Another valid fixed parameter of the same form: the mean part moved by 1.5 (variances / covariances kept)."""
    if isinstance(param, tuple):
        return (_shifted(param[0]),) + tuple(param[1:])
    if isinstance(param, np.ndarray):
        return param + 1.5
    return param + 1.5


def _reconfigure(det, X, seed, wrap):
    """The object is first built with other structural hyper-parameters (smaller minimum lengths, other
    maximum lengths / growth factor), fitted and used on data of the same shape, and only then given
    its real configuration through set_params: it must behave like a freshly built detector.
    Returns the reconfigured (unfitted) object, or None when no such detour is possible."""
    target = det.get_params(deep=False)
    first = {}
    rng = np.random.default_rng(seed)
    for k in ("min_segment_length",):
        if isinstance(target.get(k), (int, np.integer)) and target[k] > 1:
            first[k] = max(1 + (k in target and "max_segment_length" in target), int(target[k]) - int(rng.integers(1, 4)))
    for k in ("max_interval_length", "max_segment_length"):
        if isinstance(target.get(k), (int, np.integer)):
            first[k] = int(target[k]) + int(rng.integers(3, 40))
    if isinstance(target.get("growth_factor"), (float, np.floating)):
        first["growth_factor"] = float([1.2, 1.7, 2.0][int(rng.integers(3))])
    first = {k: v for k, v in first.items() if v != target[k]}
    # hyper-parameters of a plugged-in scorer (fixed cost parameter, a user cost's weight) that the caller sets
    # through the nested interface after the detector was built and used with other values
    nested_first, nested_real = {}, {}
    for slot, v in target.items():
        if not hasattr(v, "get_params"):
            continue
        vp = v.get_params(deep=False)
        if vp.get("param") is not None:
            nested_first[f"{slot}__param"] = _shifted(vp["param"])
            nested_real[f"{slot}__param"] = vp["param"]
        for hp in ("weight", "scale"):
            if isinstance(vp.get(hp), (int, float, np.integer, np.floating)) and not isinstance(vp.get(hp), bool):
                nested_first[f"{slot}__{hp}"] = float(vp[hp]) * 2.0 + 1.0
                nested_real[f"{slot}__{hp}"] = vp[hp]
    if not first and not nested_first:
        return None
    try:
        d0 = det.clone().set_params(**first)
        if nested_first:
            d0.set_params(**nested_first)
        other = wrap(_other(seed + 5, X.shape[0], X.shape[1], X))
        d0.fit(other)
        d0.predict(other)
        d0.set_params(**{k: target[k] for k in first})
        if nested_real:
            d0.set_params(**nested_real)
    except Exception:  # the detour itself is not what is judged
        return None
    return d0


def prepare(det, X, hist, seed, nmin, frame=None, wrap=None):
    """det: unfitted detector; X: (n,p) array; returns (fitted det, object holding X's values).

    frame: None -> ndarray container, "df" -> DataFrame container ("series" for p == 1 callers pass
    their own container through `wrap`)."""
    n, p = X.shape
    if wrap is None:
        if frame == "df":
            # a DataFrame whose index is, in 4 of 7 cases, not 0..n-1 (offset / stepped range, datetime, period, tied
            # labels): positions, scores and thresholds are about integer positions, whatever the labels
            from vf.spec import INDEX_KINDS, TIED_INDEX_KINDS, make_frame

            ik = (["range0"] * 3 + INDEX_KINDS[1:] + TIED_INDEX_KINDS[:1])[seed % 8]
            wrap = lambda a: make_frame(a, ik, dtype=str(np.asarray(a).dtype))  # noqa: E731
        else:
            wrap = lambda a: a  # noqa: E731
    if hist == "reconfigured":
        d0 = _reconfigure(det, X, seed, wrap)
        det = det if d0 is None else d0
        hist = None
    if hist is None:
        obj = wrap(X.copy())
        det.fit(obj)
        return det, obj
    if hist == "fit_other":
        # trained on a series of another length (shorter or longer), then asked about X
        d = int(np.random.default_rng(seed).integers(-n // 2, n + 1))
        na = max(nmin, n + (d if d != 0 else 3))
        det.fit(wrap(_other(seed, na, p, X)))
        return det, wrap(X.copy())
    if hist == "same_object":
        # fit(obj); predict(longer other data); then the SAME obj again
        obj = wrap(X.copy())
        det.fit(obj)
        nb = n + int(np.random.default_rng(seed).integers(0, n + 1))
        det.predict(wrap(_other(seed + 1, nb, p, X)))
        return det, obj
    if hist == "inplace":
        # the caller's object holds other values while fitting (and a first predict) and is then
        # overwritten IN PLACE with X
        obj = wrap(_other(seed + 2, n, p, X))
        det.fit(obj)
        det.predict(obj)
        if isinstance(obj, pd.DataFrame):
            obj.iloc[:, :] = X
        else:
            obj[...] = X
        return det, obj
    raise KeyError(hist)
