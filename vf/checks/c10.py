"""C10 - results depend only on hyper-parameters, training data and the input."""
import copy

import numpy as np
import pandas as pd

from vf import instrument as I
from vf.checks.c11 import same_value
from vf.core import CaseTimeout, digest, time_limit
from vf.gen import gen_data
from vf.scorers import SCORER_NAMES, make_scorer
from vf.spec import S, build, make_index, short
from vf.zoo import DETECTORS, random_detector

SHARDS = {"quick": 16, "thorough": 16}
WATCHDOG = {"quick": 1800, "thorough": 10800}
HISTORIES = {"quick": 5, "thorough": 60}
OPS = {"quick": (40, 90), "thorough": (60, 200)}
FLOORS = {
    "quick": {"distinct_nontrivial": 940, "output_events_compared": 1100, "twins_built": 3700,
              "K3_evaluations": 1100000, "events_after_other_data": 940, "events_on_sharing_objects": 340,
              "update_events": 59, "set_params_events": 62, "clone_events": 51},
    "thorough": {"distinct_nontrivial": 6000, "output_events_compared": 15000},
}
ANCHORS = [
    "skchange.base.base_detector.BaseDetector.update",
    "skchange.base.base_detector.BaseDetector._update",
    "skchange.base.base_detector.BaseDetector.fit",
    "skchange.base.base_interval_scorer.BaseIntervalScorer.fit",
    "skchange.change_detectors.pelt.PELT._transform_scores",
    "skchange.anomaly_detectors.capa.CAPA._transform_scores",
    "skchange.anomaly_detectors.mvcapa.MVCAPA._transform_scores",
    "skchange.anomaly_scores.from_cost.LocalAnomalyScore._fit",
    "skchange.change_scores.from_cost.ChangeScore._fit",
    "skchange.anomaly_detectors.anomalisers.StatThresholdAnomaliser._fit",
]
LEVEL = "exploration"
RULE = (
    "random sequential call histories over a pool of 6-12 objects (7 detector classes from the zoo "
    "incl. user-defined scorers, built-in scorers) and 4-9 datasets (groups sharing shape and index "
    "but not values, different n and p between groups; RangeIndex and DatetimeIndex frames): construct / set_params (flat and nested) / clone / fit / update / "
    "predict / transform / transform_scores / scores table / scorer fit / evaluate, with scorer "
    "instances shared between detectors and pre-fitted scorers passed to constructors. Twin-object "
    "monitor: for every output event three twins are built from the object's configuration recipe "
    "(freshly constructed, clone() of the history-laden object, differently constructed + "
    "set_params), fitted on the recorded training data (old and new data combined after update) and "
    "asked the same single call; all outputs must be equal (exact for discrete outputs, 1e-12 "
    "relative for scores, exceptions by type). icontract K3 on every public call: caller's data and "
    "hyper-parameters unchanged. Non-trivial = output event preceded by >=1 call on different data "
    "on the same object or on an object sharing a scorer; distinct by (history seed, event number)."
)
ASSUMPTIONS = [
    "not asserted: what a user-held scorer returns from evaluate after a detector re-fitted it "
    "internally (ambiguous in the statement); shared scorers are only observed through detectors",
]


def _frame(X, kind, start=0):
    n, p = X.shape
    idx = make_index(kind, n + start)[start:]
    return pd.DataFrame(X, index=idx, columns=list(range(p)))


class Obj:
    def __init__(self, spec, obj, kind, shared=False):
        self.spec = spec        # configuration recipe (JSON)
        self.obj = obj
        self.kind = kind        # 'detector' | 'scorer'
        self.train = None       # recorded training frame (combined after update)
        self.last_data = None   # digest of the data of the last call
        self.touched_other = False
        self.shared = shared
        self.index_kind = None


def nested_param_edit(rng, spec):
    """A set_params edit: (params dict for set_params, new spec)."""
    spec2 = copy.deepcopy(spec)
    kw = spec2["kw"]
    flat = [k for k, v in kw.items() if isinstance(v, (int, float)) and not isinstance(v, bool)
            and k.endswith(("_scale", "level"))]
    nested = [k for k, v in kw.items() if isinstance(v, dict) and v.get("cls") in ("L2Cost", "L1Cost")]
    if nested and rng.random() < 0.7:
        k = nested[int(rng.integers(len(nested)))]
        inner = kw[k]["kw"]
        if kw[k]["cls"] == "L1Cost" and rng.random() < 0.5:
            # a hyper-parameter of a user cost other than `param`
            new = float([0.5, 2.0, 3.0, 4.0][int(rng.integers(4))])
            if inner.get("weight", 1.0) == new:
                new = 1.5
            inner["weight"] = new
            return {f"{k}__weight": new}, spec2
        if inner.get("param") is None and spec["cls"] not in ("CAPA", "MVCAPA"):
            return None
        new = round(float(rng.normal()), 2)
        if spec["cls"] in ("CAPA", "MVCAPA") or inner.get("param") is not None:
            inner["param"] = new
            return {f"{k}__param": new}, spec2
        return None
    # structural hyper-parameters (changed in the direction that keeps every constraint satisfied)
    struct = [k for k in ("min_segment_length", "max_interval_length", "max_segment_length", "growth_factor")
              if isinstance(kw.get(k), (int, float)) and not isinstance(kw.get(k), bool)]
    if struct and rng.random() < 0.65:
        k = struct[int(rng.integers(len(struct)))]
        if k == "min_segment_length":
            if kw[k] <= 2:
                return None
            new = int(max(2, kw[k] - int(rng.integers(1, 3))))
        elif k == "growth_factor":
            new = float([1.2, 1.7, 2.0][int(rng.integers(3))])
        else:
            new = int(kw[k] + int(rng.integers(2, 15)))
        if new == kw[k]:
            return None
        kw[k] = new
        return {k: new}, spec2
    if flat:
        k = flat[int(rng.integers(len(flat)))]
        new = float(rng.choice([0.05, 0.3, 0.7, 1.5])) if k.endswith("_scale") else float(rng.choice([0.05, 0.3]))
        if kw[k] is None:
            return None
        kw[k] = new
        return {k: new}, spec2
    return None


def twin_copy(D):
    """A private copy with the same values AND the same memory layout (numpy's summation order
    depends on the layout, so a deep copy of a frame may differ from the original in the last bit
    of a layout-sensitive scorer): between an object and its twins only the history differs."""
    if isinstance(D, pd.DataFrame):
        a = D.to_numpy()
        return pd.DataFrame(a.copy(order="K"), index=D.index.copy(), columns=D.columns.copy(), copy=False)
    return D.copy(order="K")


def build_twins(o, ctx):
    """Three twins from the configuration recipe, fitted on the recorded training data."""
    twins = []
    try:
        twins.append(("fresh", build(o.spec)))
        twins.append(("clone", o.obj.clone()))
        # differently constructed, then configured with set_params
        other = build(o.other_spec) if getattr(o, "other_spec", None) else build(o.spec)
        target = build(o.spec)
        other.set_params(**target.get_params(deep=False))
        twins.append(("set_params", other))
    except Exception as ex:
        return None, f"{type(ex).__name__}: {ex}"
    ctx.stat("twins_built", len(twins))
    for _, t in twins:
        if o.train is not None:
            t.fit(twin_copy(o.train))
    return twins, None


def restore_after_failure(o):
    """A failed fit / fit_predict / fit_transform leaves the object in an unspecified state (the fit
    part may or may not have happened).  Objects of their own are rebuilt from their recipe; an object
    sharing a scorer with others is kept (the sharing is the point) and reset() to its post-init
    state, which keeps the hyper-parameters - the shared scorer instance included."""
    if not o.shared:
        o.obj = build(o.spec)
    else:
        o.obj.reset()
    o.train = None


def call(obj, op, arg):
    try:
        if op == "scores_table":
            obj.predict(arg)
            return "ok", obj.scores.to_numpy(dtype=float) if isinstance(obj.scores, pd.DataFrame) \
                else np.asarray(obj.scores, dtype=float)
        if op == "fitted_params":
            return "ok", {k: float(getattr(obj, k)) for k in ("threshold_", "penalty_", "collective_penalty_",
                                                             "point_penalty_") if hasattr(obj, k)}
        return "ok", getattr(obj, op)(arg)
    except CaseTimeout:
        raise
    except Exception as ex:
        return "exc", type(ex).__name__


def history(ctx, seed):
    rng = np.random.default_rng(seed)
    tier = ctx.tier
    sub = "twin-monitor"
    # ---- datasets -------------------------------------------------------------------------------
    # groups of datasets that share shape AND index but hold different values (a result cached by
    # shape or index instead of by content shows only there), plus datasets of other n and p
    datasets = []
    for g in range(int(rng.integers(2, 4))):
        p = int(rng.choice([1, 1, 2, 3]))
        n = int(rng.integers(16, 45))
        ik = "datetime" if rng.random() < 0.3 else "range0"
        for i in range(int(rng.integers(2, 4))):
            X, _ = gen_data(rng, n, p, ["mean_changes", "collective", "spikes", "noise", "small_alphabet"][
                int(rng.integers(5))])
            datasets.append(_frame(X, ik))
    pristine_frames = [d.copy(deep=True) for d in datasets]
    pristine = [d.to_numpy().tobytes() for d in datasets]

    def arg_of(D):
        """The caller's own object in half of the calls (a result cached by object identity or an
        in-place modification only shows then), a private copy otherwise; arrays sometimes."""
        u = rng.random()
        if u < 0.45:
            return D
        if u < 0.6 and isinstance(D.index, pd.RangeIndex):
            return D.to_numpy()  # a view of the caller's block
        return D.copy(deep=True)

    # ---- pool -----------------------------------------------------------------------------------
    pool = []
    # the cost shared by several detectors: also costs whose fitted state (minimum size, data held)
    # depends on the data they saw last (GaussianCovCost.min_size = p + 1; LazySSECost reads _X)
    shared_spec = S(["L2Cost", "L2Cost", "GaussianVarCost", "GaussianCovCost", "LazySSECost"][
        int(rng.integers(5))], param=None)
    shared_cost = build(shared_spec)
    shared_det = []  # [(spec, the one change-detector instance handed to several anomalisers), ...]
    if rng.random() < 0.5:
        shared_cost.fit(datasets[0].copy())  # pre-fitted scorer passed to constructors
    for i in range(int(rng.integers(6, 13))):
        r = rng.random()
        if r < 0.2:
            name = SCORER_NAMES[int(rng.integers(len(SCORER_NAMES)))]
            # array-valued fixed parameters are sized for the columns of one of the datasets (fits on
            # data of another width raise for the object and its twins alike); covariance matrices
            # in Fortran order half of the time (a 1x1 array is both C- and F-contiguous)
            p_s = int(datasets[int(rng.integers(len(datasets)))].shape[1])
            spec, _ = make_scorer(rng, name, p_s)

            def _fortran(x):
                if isinstance(x, dict):
                    if "nd" in x and np.ndim(x["nd"]) == 2 and rng.random() < 0.5:
                        x["order"] = "F"
                    for v in list(x.values()):
                        _fortran(v)
                elif isinstance(x, list):
                    for v in x:
                        _fortran(v)
            _fortran(spec)
            if rng.random() < 0.25:
                # fixed-parameter costs with a NON-zero mean (scalars broadcast over any p)
                m_, v_ = round(float(rng.normal(0, 2)), 2) or 0.5, float(rng.choice([0.5, 1.0, 2.0]))
                spec = [S("GaussianCovCost", param={"tuple": [m_, v_]}),
                        S("GaussianVarCost", param={"tuple": [m_, v_]}), S("L2Cost", param=m_),
                        S("Saving", baseline_cost=S("GaussianCovCost", param={"tuple": [m_, v_]}))][
                    int(rng.integers(4))]
            elif rng.random() < 0.3:
                # adapters around a user cost with a second hyper-parameter (edited later through
                # nested set_params on the adapter)
                inner = S("L1Cost", param=round(float(rng.normal()), 2), weight=float([1.0, 2.0][int(rng.integers(2))]))
                spec = [S("Saving", baseline_cost=inner), S("ChangeScore", cost=inner),
                        S("LocalAnomalyScore", cost=inner)][int(rng.integers(3))]
            o = Obj(spec, build(spec), "scorer")
        elif r < 0.45 and (shared_det or rng.random() < 0.12) and len(shared_det) < 3:
            # anomalisers sharing ONE change-detector instance: each must fit its own clone of it, so what one
            # of them is fitted on never shows in the other (a data-dependent, tuned threshold makes it visible)
            from skchange.anomaly_detectors.anomalisers import StatThresholdAnomaliser

            if not shared_det:
                dspec = S("MovingWindow", change_score=None, bandwidth=int(rng.integers(2, 5)), threshold_scale=None,
                          level=float([0.05, 0.2][int(rng.integers(2))]), min_detection_interval=1)
                shared_det.append((dspec, build(dspec)))
            dspec, dobj = shared_det[0]
            shared_det.append(None)
            lo = float([-1.0, -0.3, 0.0][int(rng.integers(3))])
            spec = S("StatThresholdAnomaliser", change_detector=copy.deepcopy(dspec), stat={"fn": "np.mean"},
                     stat_lower=lo, stat_upper=lo + float([0.3, 1.0][int(rng.integers(2))]))
            o = Obj(spec, StatThresholdAnomaliser(change_detector=dobj, stat=np.mean, stat_lower=spec["kw"]["stat_lower"],
                                                  stat_upper=spec["kw"]["stat_upper"]), "detector", shared=True)
        elif r < 0.45:
            # detectors sharing ONE cost instance
            which = ["PELT", "MovingWindow", "SeededBinarySegmentation", "CircularBinarySegmentation"][
                int(rng.integers(4))]
            key = {"PELT": "cost", "MovingWindow": "change_score", "SeededBinarySegmentation": "change_score",
                   "CircularBinarySegmentation": "anomaly_score"}[which]
            spec, _, _ = random_detector(rng, True, 3, which=which)
            spec["kw"][key] = copy.deepcopy(shared_spec)
            if which in ("SeededBinarySegmentation", "CircularBinarySegmentation", "PELT"):
                spec["kw"]["min_segment_length"] = min(spec["kw"]["min_segment_length"], 3)
                if "max_interval_length" in spec["kw"]:
                    spec["kw"]["max_interval_length"] = max(spec["kw"]["max_interval_length"],
                                                            2 * spec["kw"]["min_segment_length"])
            if which == "MovingWindow":
                spec["kw"]["bandwidth"] = min(spec["kw"]["bandwidth"], 5)
                spec["kw"]["min_detection_interval"] = 1
            cls = type(build(spec))
            kwargs = {k: build(v) for k, v in spec["kw"].items() if k != key}
            o = Obj(spec, cls(**{key: shared_cost}, **kwargs), "detector", shared=True)
        else:
            which = DETECTORS[int(rng.integers(len(DETECTORS)))]
            spec, _, _ = random_detector(rng, True, 3, which=which)
            if which in ("CAPA", "MVCAPA") and rng.random() < 0.6:
                # a cost handed in as saving: the detector wraps it itself (to_saving)
                spec["kw"]["collective_saving"] = S("L2Cost", param=round(float(rng.normal()), 2))
                if rng.random() < 0.5:
                    spec["kw"]["point_saving"] = S("L2Cost", param=0.0)
                if which == "CAPA" and rng.random() < 0.3:
                    spec["kw"]["collective_saving"] = S("GaussianCovCost", param={"tuple": [
                        round(float(rng.normal(0, 2)), 2) or 0.5, 1.0]})
                    spec["kw"]["min_segment_length"] = max(spec["kw"]["min_segment_length"], 4)
                    spec["kw"]["max_segment_length"] = max(spec["kw"]["max_segment_length"], 4)
            if "GaussianCovCost" in short(spec):
                spec, _, _ = random_detector(rng, True, 3, which="PELT")
            # scorers whose hyper-parameters are edited later through nested set_params: costs with
            # a fixed parameter and a user cost with a second hyper-parameter, in every scorer slot
            slot = {"PELT": "cost", "MovingWindow": "change_score", "SeededBinarySegmentation": "change_score",
                    "CircularBinarySegmentation": "anomaly_score", "CAPA": "collective_saving",
                    "MVCAPA": "collective_saving"}.get(spec["cls"])
            if slot and rng.random() < 0.3:
                fixed = spec["cls"] in ("CAPA", "MVCAPA") or rng.random() < 0.5
                par = round(float(rng.normal()), 2) if fixed else None
                spec["kw"][slot] = [S("L2Cost", param=par),
                                    S("L1Cost", param=par, weight=float([1.0, 2.0][int(rng.integers(2))]))][
                    int(rng.integers(2))]
            if spec["cls"] == "CircularBinarySegmentation":
                spec["kw"]["max_interval_length"] = min(spec["kw"]["max_interval_length"], 14)
            o = Obj(spec, build(spec), "detector")
            o.other_spec = random_detector(rng, True, 3, which=spec["cls"])[0]
            if "GaussianCovCost" in short(o.other_spec):
                o.other_spec = None
        pool.append(o)
    lo, hi = OPS[tier]
    nops = int(rng.integers(lo, hi))
    ev = 0
    log = []
    for step in range(nops):
        # contract K3 is evaluated on every public call (fit, update, evaluate, ... included): hits of
        # the previous operation are turned into violations before the next one starts
        for h in I.drain():
            if h["contract"] == "K3":
                ctx.violation("contract-K3", "input-or-params-modified", f"history {seed} step {step - 1}: "
                              f"{h['cls']}: {h['message']}", {"seed": seed, "step": step - 1})
        o = pool[int(rng.integers(len(pool)))]
        D = datasets[int(rng.integers(len(datasets)))]
        if any(D.to_numpy().tobytes() != d0 for D, d0 in zip(datasets, pristine)):
            ctx.violation("contract-K3", "dataset-modified", f"history {seed} before step {step}: a dataset "
                          f"held by the caller was modified by an earlier call", {"seed": seed, "step": step})
            for i_, b_ in enumerate(pristine_frames):
                datasets[i_] = b_.copy(deep=True)
        dd = I.data_digest(D)
        r = rng.random()
        if o.kind == "scorer":
            inner_key = next((a for a in ("cost", "baseline_cost")
                              if isinstance(o.spec.get("kw", {}).get(a), dict)
                              and o.spec["kw"][a].get("cls") in ("L1Cost", "L2Cost")), None)
            if inner_key and r > 0.9:
                # nested set_params on an adapter: must behave like an adapter built with the new value
                spec2 = copy.deepcopy(o.spec)
                ik = spec2["kw"][inner_key]["kw"]
                if spec2["kw"][inner_key]["cls"] == "L1Cost" and rng.random() < 0.6:
                    new = float([0.5, 3.0, 4.0][int(rng.integers(3))])
                    ik["weight"] = new
                    params = {f"{inner_key}__weight": new}
                elif ik.get("param") is not None and not isinstance(ik["param"], dict):
                    new = round(float(rng.normal()), 2)
                    ik["param"] = new
                    params = {f"{inner_key}__param": new}
                else:
                    params = None
                if params:
                    try:
                        o.obj.set_params(**params)
                        o.spec, o.train = spec2, None
                        ctx.stat("scorer_set_params_events")
                    except Exception as ex:
                        ctx.violation(sub, "set_params-exception", f"history {seed} step {step}: "
                                      f"{short(o.spec)}.set_params({params}) raised {type(ex).__name__}: {ex}",
                                      {"seed": seed, "step": step})
                    continue
            if r < 0.4 or o.train is None:
                op = "fit"
                st, _ = call(o.obj, "fit", arg_of(D))
                if st == "ok":
                    o.train = D
                else:
                    restore_after_failure(o)  # a failed fit leaves the scorer in an unspecified state
                log.append((step, short(o.spec)[:40], "fit", D.shape, st))
            else:
                n = len(o.train)
                k = o.obj.expected_cut_entries
                ms = o.obj.min_size or 1
                cuts = np.sort(rng.choice(n + 1, size=(6, k)), axis=1).astype(np.int64)
                cuts = cuts[(np.diff(cuts, axis=1) >= ms).all(axis=1)]
                if len(cuts) == 0:
                    continue
                orig = cuts.copy()
                st, val = call(o.obj, "evaluate", cuts)
                if not np.array_equal(cuts, orig):
                    ctx.violation(sub, "cuts-modified", f"evaluate modified the caller's cuts "
                                  f"({short(o.spec)})", {"seed": seed, "step": step})
                twins, err = build_twins(o, ctx)
                if twins is None:
                    continue
                ev += 1
                ctx.case()  # one case = one output event compared with its twins
                ctx.stat("output_events_compared")
                for tname, t in twins:
                    tst, tval = call(t, "evaluate", orig.copy())
                    if (st, tst) != ("ok", "ok"):
                        if st != tst or val != tval:
                            ctx.violation(sub, f"scorer-differs-from-{tname}-twin", f"history {seed} step "
                                          f"{step}: {short(o.spec)} evaluate -> {st}:{val!r:.80}; {tname} twin "
                                          f"-> {tst}:{tval!r:.80}", {"seed": seed, "step": step})
                    elif not same_value(val, tval):
                        ctx.violation(sub, f"scorer-differs-from-{tname}-twin", f"history {seed} step {step}: "
                                      f"{short(o.spec)} evaluate differs from its {tname} twin",
                                      {"seed": seed, "step": step})
                if o.touched_other:
                    ctx.stat("events_after_other_data")
                    ctx.nt(f"{seed}:{step}")
                log.append((step, short(o.spec)[:40], "evaluate", len(orig), st))
            if o.last_data is not None and o.last_data != dd:
                o.touched_other = True
            o.last_data = dd
        else:
            if r < 0.22 or (o.train is None and r < 0.6):
                st, _ = call(o.obj, "fit", arg_of(D))
                if st == "ok":
                    o.train = D
                    o.index_kind = "datetime" if isinstance(D.index, pd.DatetimeIndex) else "range0"
                elif st == "exc":
                    # after a failed fit the object state is unspecified: rebuild it from its recipe
                    restore_after_failure(o)
                log.append((step, short(o.spec)[:40], "fit", D.shape, st))
            elif r < 0.30 and o.train is not None and not o.shared:
                # update with new pandas data continuing the training index
                p = o.train.shape[1]
                nb = int(rng.integers(6, 20))
                B, _ = gen_data(rng, nb, p, "noise")
                # half of the chunks overlap the tail of the stored data with other values: combined
                # data = the new values on the shared stamps, the old ones elsewhere
                overlap = int(rng.integers(0, min(8, len(o.train)))) if rng.random() < 0.5 else 0
                if overlap:
                    ctx.stat("update_events_overlapping")
                Bf = _frame(B, o.index_kind or "range0", start=len(o.train) - overlap)
                if not isinstance(o.train.index, type(Bf.index)):
                    continue
                Bf.columns = o.train.columns
                # update_predict(X) is update(X) followed by predict(X): used for a third of the events
                up_op = "update_predict" if rng.random() < 0.35 else "update"
                st, up_val = call(o.obj, up_op, Bf.copy(deep=True))
                ctx.stat("update_events")
                if st == "ok":
                    o.train = Bf.combine_first(o.train)
                    if up_op == "update_predict":
                        ctx.stat("update_predict_events")
                        twins_u, _ = build_twins(o, ctx)
                        for tname, t in (twins_u or []):
                            tst, tval = call(t, "predict", twin_copy(Bf))
                            if tst != "ok" or not same_value(up_val, tval):
                                ctx.violation(sub, "update_predict-vs-fit-combined", f"history {seed} step {step}: "
                                              f"{short(o.spec)}.update_predict(X[{Bf.shape}]) = {str(up_val)[:120]!r} "
                                              f"but fit(old+new).predict(X) of the {tname} twin gives "
                                              f"{str(tval)[:120]!r}", {"seed": seed, "step": step})
                    # fitted parameters must equal those of fit(old + new)
                    twins, err = build_twins(o, ctx)
                    if twins:
                        _, a = call(o.obj, "fitted_params", None)
                        for tname, t in twins:
                            _, b = call(t, "fitted_params", None)
                            if not same_value(a, b):
                                ctx.violation(sub, "update-vs-fit-combined", f"history {seed} step {step}: "
                                              f"{short(o.spec)} after update has {a}, fit on old+new "
                                              f"combined gives {b}", {"seed": seed, "step": step})
                else:
                    o.obj = build(o.spec)
                    o.train = None
                log.append((step, short(o.spec)[:40], "update", Bf.shape, st))
            elif r < 0.44 and not o.shared:
                ed = nested_param_edit(rng, o.spec)
                if ed is None:
                    continue
                params, spec2 = ed
                prev_train = o.train
                try:
                    o.obj.set_params(**params)
                    o.spec = spec2
                    o.train = None  # set_params resets the estimator
                    ctx.stat("set_params_events")
                    # follow-up: straight away a fit and an output call on data of the SAME shape as
                    # the object saw before the edit (anything remembered per shape would show now)
                    same = [d for d in datasets if prev_train is not None and d.shape == prev_train.shape]
                    if same and o.spec["cls"] != "StatThresholdAnomaliser":
                        D2 = same[int(rng.integers(len(same)))]
                        st2, _ = call(o.obj, "fit", D2)
                        if st2 == "ok":
                            o.train = D2
                            twins, _ = build_twins(o, ctx)
                            op2 = ["predict", "scores_table", "transform"][int(rng.integers(3))]
                            st3, val3 = call(o.obj, op2, D2)
                            ctx.stat("set_params_followups")
                            for tname, t in (twins or []):
                                tst, tval = call(t, op2, twin_copy(D2))
                                if st3 != tst or (st3 == "ok" and not same_value(val3, tval)):
                                    ctx.violation(sub, f"differs-from-{tname}-twin", f"history {seed} step {step}: "
                                                  f"{short(o.spec)} after set_params({params}) and a fit on data of "
                                                  f"the shape it had seen before: {op2} differs from the {tname} "
                                                  f"twin ({str(val3)[:80]!r} vs {str(tval)[:80]!r})",
                                                  {"seed": seed, "step": step})
                        else:
                            restore_after_failure(o)
                except Exception as ex:
                    ctx.violation(sub, "set_params-exception", f"history {seed} step {step}: "
                                  f"{short(o.spec)}.set_params({params}) raised {type(ex).__name__}: {ex}",
                                  {"seed": seed, "step": step})
                log.append((step, short(o.spec)[:40], "set_params", params, "ok"))
            elif r < 0.50 and not o.shared:
                # continue the history on a clone (must carry the configuration, not the fitted state)
                try:
                    o.obj = o.obj.clone()
                    o.train = None
                    ctx.stat("clone_events")
                except Exception as ex:
                    ctx.violation(sub, "clone-exception", f"history {seed} step {step}: clone of "
                                  f"{short(o.spec)} raised {type(ex).__name__}: {ex}", {"seed": seed, "step": step})
                log.append((step, short(o.spec)[:40], "clone", None, "ok"))
            else:
                op = ["predict", "transform", "transform_scores", "scores_table", "fit_predict",
                      "fit_transform"][int(rng.integers(6))]
                arg = D if rng.random() < 0.5 else D.copy(deep=True)
                if o.spec["cls"] == "StatThresholdAnomaliser" and arg.shape[1] > 1:
                    arg = arg.iloc[:, [0]]
                if op in ("fit_predict", "fit_transform"):
                    # convenience methods: the same as fit(X) followed by predict(X) / transform(X)
                    st, val = call(o.obj, op, arg)
                    ctx.stat("fit_convenience_events")
                    if st == "ok":
                        o.train = arg
                        o.index_kind = "datetime" if isinstance(arg.index, pd.DatetimeIndex) else "range0"
                    else:
                        # fit may have succeeded before predict/transform raised: state unspecified
                        restore_after_failure(o)
                        continue
                    op = op[4:]
                else:
                    st, val = call(o.obj, op, arg)
                hits = [h for h in I.drain() if h["contract"] == "K3"]
                for h in hits:
                    ctx.violation("contract-K3", "input-or-params-modified", f"history {seed} step {step}: "
                                  f"{short(o.spec)}.{op}: {h['message']}", {"seed": seed, "step": step})
                twins, err = build_twins(o, ctx)
                if twins is None:
                    ctx.stat("twin_build_failed")
                    continue
                ev += 1
                ctx.case()  # one case = one output event compared with its twins
                ctx.stat("output_events_compared")
                for tname, t in twins:
                    tst, tval = call(t, op, twin_copy(arg))
                    if (st, tst) != ("ok", "ok"):
                        if st != tst or (st == "exc" and val != tval):
                            ctx.violation(sub, f"differs-from-{tname}-twin", f"history {seed} step {step}: "
                                          f"{short(o.spec)}.{op}(X[{arg.shape}]) -> {st}:{str(val)[:60]}; "
                                          f"{tname} twin fitted the same way -> {tst}:{str(tval)[:60]}",
                                          {"seed": seed, "step": step})
                    elif not same_value(val, tval):
                        ctx.violation(sub, f"differs-from-{tname}-twin", f"history {seed} step {step}: "
                                      f"{short(o.spec)}.{op}(X[{arg.shape}]) = {str(val)[:150]!r} but the "
                                      f"{tname} twin fitted the same way gives {str(tval)[:150]!r}",
                                      {"seed": seed, "step": step})
                if o.touched_other or (o.shared and step > 3):
                    ctx.stat("events_after_other_data")
                    ctx.nt(f"{seed}:{step}")
                if o.shared:
                    ctx.stat("events_on_sharing_objects")
                log.append((step, short(o.spec)[:40], op, arg.shape, st))
            if o.last_data is not None and o.last_data != dd:
                o.touched_other = True
            o.last_data = dd
    ctx.sample({"history_seed": seed, "objects": len(pool), "datasets": [d.shape for d in datasets],
                "ops": nops, "output_events": ev, "first_ops": [list(map(str, l)) for l in log[:12]]}, cap=2)


def exec_case(ctx, r):
    ctx.stat("histories")
    try:
        with time_limit(900):
            history(ctx, int(r["seed"]))
    except CaseTimeout:
        ctx.stat("case_timeouts")


def run(ctx):
    I.install()
    for i in range(HISTORIES[ctx.tier]):
        exec_case(ctx, {"seed": int(ctx.rng.integers(2 ** 31))})
    ctx.stat("K3_evaluations", I.COUNTS["K3"] + I.COUNTS["K3e"])


def replay(ctx, sub, recipe):
    I.install()
    exec_case(ctx, recipe)
