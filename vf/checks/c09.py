"""C09 - circular binary segmentation reports greedy disjoint above-threshold anomalies."""
import numpy as np

from vf import history as H
from vf import instrument as I
from vf.core import CaseTimeout, digest, time_limit
from vf.gen import gen_data
from vf.models.greedy import greedy_outcomes
from vf.spec import build, short
from vf.zoo import cbs

SHARDS = {"quick": 16, "thorough": 16}
WATCHDOG = {"quick": 1800, "thorough": 10800}
CASES = {"quick": 45, "thorough": 500}
FLOORS = {
    "quick": {"inner_scores_checked_against_cost_definition": 1923, "distinct_nontrivial": 130, "table_rows_checked": 7700, "greedy_compared": 270,
              "cases[msl=1]": 60, "inner_intervals_evaluated": 100000, "threshold_pairs": 150},
    "thorough": {"distinct_nontrivial": 800, "table_rows_checked": 40000},
}
ANCHORS = [
    "skchange.anomaly_detectors.circular_binseg.make_anomaly_intervals",
    "skchange.anomaly_detectors.circular_binseg.run_circular_binseg",
    "skchange.anomaly_detectors.circular_binseg.greedy_anomaly_selection",
    "skchange.anomaly_detectors.circular_binseg.CircularBinarySegmentation._tune_threshold",
]
LEVEL = "exploration"
RULE = (
    "case = CircularBinarySegmentation(score in {default L2Cost, L2Cost, GaussianVarCost, "
    "LocalAnomalyScore(L2Cost), integer HashLocalAnomalyScore}, threshold 0..2 or tuned, msl 1..4, "
    "max_interval_length from 2*msl, growth_factor in (1,2]) on seeded data with collective anomalies, "
    "n from 2*msl to 32 (80 thorough), p<=3. Oracle over the REPORTED table detector.scores: each "
    "row's score == max and (argmax_anomaly_start, argmax_anomaly_end) is a maximiser of the "
    "column-summed local anomaly score (FRESH clone, public evaluate) over inner intervals with "
    "start<a, b<end, b-a>=msl, (a-start)+(end-b)>=msl; reported anomalies == greedy selection over "
    "the reported table with threshold_, discarding every candidate that overlaps the chosen inner "
    "interval (exact tie orders explored); a raised threshold only removes anomalies. Non-trivial = "
    ">=2 rows above threshold and >=1 anomaly; distinct by recipe digest."
)
ASSUMPTIONS = ["thresholds >= 0", "candidate grid taken from the observation (the statement does not pin it)"]


def make_recipe(rng, tier):
    p = int(rng.integers(1, 4))
    spec, nmin = cbs(rng, p, dense_events=bool(rng.random() < 0.75))
    from vf.zoo import _no_negative_tuned_threshold

    spec = _no_negative_tuned_threshold(spec)
    nmax = 32 if tier == "quick" else (80 if rng.random() < 0.1 else 45)
    n = nmin if rng.random() < 0.06 else int(rng.integers(nmin, max(nmin + 1, nmax)))
    kind = ["collective", "collective", "mean_changes", "noise", "small_alphabet", "spikes",
            "piecewise_const", "flat", "steps"][int(rng.integers(9))]
    X, _ = gen_data(rng, n, p, kind)
    if spec["kw"]["anomaly_score"] and spec["kw"]["anomaly_score"]["cls"] == "GaussianVarCost":
        X = X + 1e-3 * rng.standard_normal(X.shape)
    int_dtype = bool(rng.random() < 0.15)
    if int_dtype:
        X = np.round(2 * X)
    elif rng.random() < 0.2:
        X = X * float(rng.choice([1e-3, 1e-5, 1e-7]))  # the same signal in a small unit of measurement
    if not int_dtype and rng.random() < 0.05:
        # finite data whose squares overflow: some candidate scores become NaN, which exceeds no
        # threshold, so no anomaly may rest on a NaN-scored candidate
        for _ in range(int(rng.integers(1, 3))):
            X[int(rng.integers(n)), int(rng.integers(p))] = float(rng.choice([1e160, -1e160, 1e200]))
        kind = kind + "+overflow"
    return {"det": spec, "X": X, "data_kind": kind, "int_dtype": int_dtype, "history": H.pick(rng),
            "hseed": int(rng.integers(2 ** 31)), "frame": "df" if rng.random() < 0.5 else None}


def fresh_score(spec_sc, X):
    from skchange.anomaly_scores import to_local_anomaly_score
    from skchange.costs import L2Cost

    sc = build(spec_sc)
    return to_local_anomaly_score(L2Cost() if sc is None else sc).fit(X)


def exec_case(ctx, r):
    X = np.asarray(r["X"], dtype=float)
    if r.get("int_dtype"):
        X = X.astype(np.int64)  # the same numbers passed with an integer dtype
    n, p = X.shape
    spec = r["det"]
    kw = spec["kw"]
    msl = kw["min_segment_length"]
    ctx.case()
    if r.get("int_dtype"):
        ctx.stat("cases[int64 data]")
    if msl == 1:
        ctx.stat("cases[msl=1]")
    label = f"{short(spec)} X[{n}x{p}] data={r['data_kind']}"
    sub = "cbs"
    I.drain()
    try:
        with time_limit(120):
            # the judged predict comes after a history (vf/history.py); Xarg holds exactly X's values
            det, Xarg = H.prepare(build(spec), X, r.get("history"), r.get("hseed", 0), 2 * msl, r.get("frame"))
            y = det.predict(Xarg)
            ctx.stat(f"history[{r.get('history')}]")
    except CaseTimeout:
        ctx.stat("case_timeouts")
        return
    except RuntimeError as ex:
        if "GaussianCovCost" in short(spec) and "positive definite" in str(ex):
            ctx.stat("documented_runtimeerror")  # permitted outcome for a singular slice covariance
            return
        ctx.violation(sub, "exception", f"{label}: {type(ex).__name__}: {ex}", r)
        return
    except Exception as ex:
        ctx.violation(sub, "exception", f"{label}: {type(ex).__name__}: {ex}", r)
        return
    thr = float(det.threshold_)
    if not thr >= 0:
        ctx.stat("negative_threshold_skipped")
        return
    tab = det.scores
    try:
        st, en = tab["interval_start"].to_numpy().astype(int), tab["interval_end"].to_numpy().astype(int)
        a_s = tab["argmax_anomaly_start"].to_numpy().astype(int)
        a_e = tab["argmax_anomaly_end"].to_numpy().astype(int)
        sc = tab["score"].to_numpy().astype(float)
    except Exception as ex:
        ctx.violation(sub, "table-format", f"{label}: scores table unreadable: {ex}", r)
        return
    arr = y["ilocs"].array
    anoms = list(zip(np.asarray(arr.left).astype(int).tolist(), np.asarray(arr.right).astype(int).tolist()))
    if len(st) and (st.min() < 0 or en.max() > n):
        ctx.violation(sub, "interval-bounds", f"{label}: candidate interval outside [0,{n}]", r)
        return
    score = fresh_score(kw["anomaly_score"], X.astype(float))
    asp = kw["anomaly_score"]
    cost_spec = {"cls": "L2Cost", "kw": {"param": None}} if asp is None else (
        asp if asp["cls"].endswith("Cost") else (asp["kw"].get("cost") if asp["cls"] == "LocalAnomalyScore" else None))
    for i in range(len(st)):
        cand = [(a, b) for a in range(st[i] + 1, en[i]) for b in range(a + msl, en[i])
                if (a - st[i]) + (en[i] - b) >= msl]
        if not cand:
            ctx.violation(sub, "row-without-inner-interval", f"{label}: candidate [{st[i]},{en[i]}) has no "
                          f"admissible inner interval yet reports score {sc[i]}", r)
            return
        cuts = np.array([(st[i], a, b, en[i]) for a, b in cand], dtype=np.int64)
        with np.errstate(all="ignore"):
            agg = score.evaluate(cuts).sum(axis=1)
        ctx.stat("table_rows_checked")
        ctx.stat("inner_intervals_evaluated", len(cand))
        if not (np.all(np.isfinite(agg)) and np.isfinite(sc[i])):
            ctx.stat("nonfinite_rows_skipped")  # overflowing data: only the selection clauses are judged
            continue
        tol = 1e-9 * np.abs(agg).max() + 1e-300  # purely relative: scores scale with the data's unit
        if cost_spec is not None and i % 3 == 0:
            # the local anomaly score from its definition, without the library's adapter: cost of the candidate
            # minus cost of the inner interval minus cost of the pooled surroundings, all from fresh cost objects
            j = int((i * 7919 + n) % len(cand))
            a, b = cand[j]
            Xf_ = X.astype(float)
            try:
                c0 = build(cost_spec).fit(Xf_)
                pooled = np.concatenate((Xf_[st[i]:a], Xf_[b:en[i]]))
                t_out, t_in = c0.evaluate(np.array([[st[i], en[i]]])), c0.evaluate(np.array([[a, b]]))
                t_pool = build(cost_spec).fit(pooled).evaluate(np.array([[0, len(pooled)]]))
                want = (t_out - t_in - t_pool).sum()
                # magnitude of the terms the arithmetic works with (costs are differences of sums of squares)
                mag = (np.abs(t_out).sum() + np.abs(t_in).sum() + np.abs(t_pool).sum() + abs(agg[j])
                       + float(np.sum(Xf_[st[i]:en[i]] ** 2)) + 1e-300)
                ctx.stat("inner_scores_checked_against_cost_definition")
                if np.isfinite(want) and np.isfinite(mag) and abs(want - agg[j]) > 1e-7 * mag:
                    ctx.violation(sub, "score-vs-cost-definition", f"{label}: local anomaly score of "
                                  f"[{st[i]},{a},{b},{en[i]}) is {agg[j]} but C(outer) - C(inner) - C(surroundings) "
                                  f"from fresh {short(cost_spec)} objects is {want}", r)
                    return
            except (RuntimeError, ValueError):
                ctx.stat("cost_definition_unavailable")
        if abs(sc[i] - agg.max()) > tol:
            ctx.violation(sub, "row-score", f"{label}: candidate [{st[i]},{en[i]}) reports score {sc[i]} "
                          f"but the maximum over admissible inner intervals is {agg.max()}", r)
            return
        if (a_s[i], a_e[i]) not in cand or agg[cand.index((a_s[i], a_e[i]))] < agg.max() - tol:
            ctx.violation(sub, "row-argmax", f"{label}: candidate [{st[i]},{en[i]}) reports inner interval "
                          f"[{a_s[i]},{a_e[i]}) which is not an admissible maximiser "
                          f"({cand[int(np.argmax(agg))]})", r)
            return

    def removes(i):
        return (a_e[i] > st) & (a_s[i] < en)

    if np.any(np.isnan(sc)):
        ctx.stat("cases[NaN scores]")
    outs = greedy_outcomes(np.where(np.isnan(sc), -np.inf, sc), list(zip(a_s.tolist(), a_e.tolist())), removes, thr)
    if outs is None:
        ctx.stat("near_tie_skipped")
    else:
        ctx.stat("greedy_compared")
        if len(outs) > 1:
            ctx.stat("tie_branches_explored")
        if frozenset(anoms) not in outs or len(set(anoms)) != len(anoms):
            ctx.violation(sub, "greedy-selection", f"{label}: reported anomalies {anoms} != greedy "
                          f"selection over the reported table with threshold {thr}: "
                          f"{sorted(sorted(o) for o in outs)[:3]}", r)
    if kw["threshold_scale"] is not None and r.get("history") != "fit_other":
        try:
            s2 = kw["threshold_scale"] * float(np.random.default_rng(n + len(anoms)).choice([1.3, 2.0, 4.0])) + 0.05
            d2 = build({"cls": spec["cls"], "kw": dict(kw, threshold_scale=s2)}).fit(X)
            a2 = d2.predict(X)["ilocs"].array
            an2 = set(zip(np.asarray(a2.left).astype(int).tolist(), np.asarray(a2.right).astype(int).tolist()))
            ctx.stat("threshold_pairs")
            if not an2 <= set(anoms):
                ctx.violation(sub, "threshold-monotone", f"{label}: raising the threshold to scale {s2} "
                              f"adds anomalies {sorted(an2 - set(anoms))}", r)
        except Exception as ex:
            ctx.violation(sub, "exception", f"{label}: rerun with larger threshold raised {ex}", r)
    for h in I.drain():
        if h["contract"] == "K1":
            ctx.violation("contract-K1", "malformed", f"{label}: {h['message']}", r)
    if int((sc > thr).sum()) >= 2 and anoms:
        ctx.nt(digest([spec, r["X"]]))
    ctx.sample({"case": label, "rows": int(len(st)), "rows_above_threshold": int((sc > thr).sum()),
                "anomalies": anoms, "threshold": thr}, cap=3)


def run(ctx):
    I.install()
    for _ in range(CASES[ctx.tier]):
        exec_case(ctx, make_recipe(ctx.rng, ctx.tier))


def replay(ctx, sub, recipe):
    I.install()
    exec_case(ctx, recipe)
