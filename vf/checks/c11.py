"""C11 - outputs do not depend on how the same numbers are passed in."""
import numpy as np
import pandas as pd

from vf import instrument as I
from vf.core import CaseTimeout, digest, time_limit
from vf.gen import integer_data
from vf.models import convert as CV
from vf.scorers import SCORER_NAMES, make_scorer
from vf.spec import build, make_index, short
from vf.zoo import DETECTORS, random_detector

SHARDS = {"quick": 16, "thorough": 16}
WATCHDOG = {"quick": 1800, "thorough": 10800}
CASES = {"quick": 28, "thorough": 700}
FLOORS = {
    "quick": {"distinct_nontrivial": 2700, "representations_compared": 2800, "update_pairs": 5600,
              "scorer_representations": 200, "baseline_with_events": 150},
    "thorough": {"distinct_nontrivial": 15000, "representations_compared": 40000},
}
ANCHORS = [
    "skchange.utils.validation.data.check_data",
    "skchange.utils.validation.data.as_2d_array",
    "skchange.base.base_detector.BaseDetector.transform",
    "skchange.base.base_detector.BaseDetector.update",
    "skchange.anomaly_detectors.anomalisers.StatThresholdAnomaliser._predict",
]
LEVEL = "exploration"
RULE = (
    "metamorphic matrix: baseline = float64 DataFrame with default index; every other representation "
    "of the same integer-valued numbers (2-D ndarray float/int64, int64 DataFrame, string columns, "
    "offset / stepped RangeIndex, DatetimeIndex, PeriodIndex, combined; for p=1 also Series named / "
    "unnamed and 1-D ndarray) must reproduce predict ilocs/labels/columns, transform values (carrying "
    "X's own index), transform_scores values and the scores table on fit->predict/transform/"
    "transform_scores, and fit->update->predict within the same index semantics (update(ndarray) is "
    "compared with update(DataFrame(ndarray))); an exception for one representation only is a "
    "violation. Scorers: evaluate identical for array / Series / DataFrame. 7 detectors (zoo "
    "configurations) + 19 scorer kinds. Non-trivial = baseline has >=1 event and representation != "
    "baseline; distinct by (recipe, representation)."
)
ASSUMPTIONS = ["integer-valued data so that int64 and float64 hold the same values",
               "update is index-semantic by design: only representations with the same index are compared"]

REPS = ["nd2_float", "nd2_int", "df_int", "df_strcols", "df_offset", "df_step", "df_datetime",
        "df_period", "df_datetime_str_int",
        # the same numbers in other memory layouts / block structures (still ndarray or DataFrame of
        # int64 / float64): Fortran order, a strided view of a larger array, a read-only array, a
        # frame assembled column by column (one block per column), a frame mixing int64 and float64
        "nd2_fortran", "nd2_strided_int", "nd2_readonly", "df_blocks", "df_mixed_dtypes",
        # column names that coincide with the names the library uses in its own outputs
        "df_reserved_names",
        # a datetime index with repeated stamps (several readings per second): still a datetime index, accepted by
        # the input validation; the rows are the same rows
        "df_datetime_ties"]
REPS_P1 = ["series_float", "series_named_int", "nd1_float", "series_datetime", "series_named_labels"]


def represent(X, rep, offset=0):
    """X: int64 array (n,p).  `offset` shifts the index (for the update chunk)."""
    n, p = X.shape

    def idx(kind):
        full = make_index(kind, n + offset)
        return full[offset:]

    cols = list(range(p))
    scols = ["zeta", "alpha", "mid", "b2", "a1", "q"][:p]  # deliberately not in sorted order
    Xf = X.astype(np.float64)
    if rep == "baseline":
        return pd.DataFrame(Xf, index=idx("range0"), columns=cols)
    if rep == "nd2_float":
        return Xf.copy()
    if rep == "nd2_int":
        return X.astype(np.int64).copy()
    if rep == "nd2_fortran":
        return np.asfortranarray(Xf)
    if rep == "nd2_strided_int":
        big = np.full((2 * n + 1, 2 * p + 1), 7, dtype=np.int64)
        big[1::2, ::2][:, :p] = X
        return big[1::2, ::2][:, :p]
    if rep == "nd2_readonly":
        a = Xf.copy()
        a.setflags(write=False)
        return a
    if rep == "df_blocks":
        df = pd.DataFrame(index=idx("range0"))
        for j in range(p):
            df[j] = Xf[:, j]
        return df
    if rep == "df_mixed_dtypes":
        df = pd.DataFrame(index=idx("range0"))
        for j in range(p):
            df[j] = X[:, j].astype(np.int64) if j % 2 == 0 else Xf[:, j]
        return df
    if rep == "df_int":
        return pd.DataFrame(X.astype(np.int64), index=idx("range0"), columns=cols)
    if rep == "df_reserved_names":
        return pd.DataFrame(Xf, index=idx("range0"), columns=["labels", "ilocs", "score", "icolumns", "index", "0"][:p])
    if rep == "series_named_labels":
        return pd.Series(Xf[:, 0], index=idx("range0"), name="labels")
    if rep == "df_strcols":
        return pd.DataFrame(Xf, index=idx("range0"), columns=scols)
    if rep == "df_offset":
        return pd.DataFrame(Xf, index=idx("range_offset"), columns=cols)
    if rep == "df_step":
        return pd.DataFrame(Xf, index=idx("range_step"), columns=cols)
    if rep == "df_datetime":
        return pd.DataFrame(Xf, index=idx("datetime"), columns=cols)
    if rep == "df_period":
        return pd.DataFrame(Xf, index=idx("period"), columns=cols)
    if rep == "df_datetime_ties":
        return pd.DataFrame(Xf, index=idx("datetime_ties"), columns=cols)
    if rep == "df_datetime_str_int":
        return pd.DataFrame(X.astype(np.int64), index=idx("datetime"), columns=scols)
    if rep == "series_float":
        return pd.Series(Xf[:, 0], index=idx("range0"))
    if rep == "series_named_int":
        return pd.Series(X[:, 0].astype(np.int64), index=idx("range0"), name="y")
    if rep == "series_datetime":
        return pd.Series(Xf[:, 0], index=idx("datetime"), name="y")
    if rep == "nd1_float":
        return Xf[:, 0].copy()
    raise KeyError(rep)


def index_semantics(rep):
    """representations whose update() must agree share the same index values"""
    if rep in ("df_offset",):
        return "range_offset"
    if rep == "df_step":
        return "range_step"
    if rep in ("df_datetime", "df_datetime_str_int", "series_datetime"):
        return "datetime"
    if rep == "df_period":
        return "period"
    if rep == "df_datetime_ties":
        return "datetime_ties"
    return "range0"


def observe(spec, A, B, C):
    """Everything a user can read off fit(A) -> ... on representation-specific data.
    Returns dict entry -> ('ok', value) | ('exc', type name)."""
    out = {}

    def rec(name, f):
        try:
            out[name] = ("ok", f())
        except CaseTimeout:
            raise
        except NotImplementedError:
            out[name] = ("exc", "NotImplementedError")
        except Exception as ex:
            out[name] = ("exc", type(ex).__name__ + ": " + str(ex)[:160])

    det = None

    def fit():
        nonlocal det
        det = build(spec).fit(A)
        return {k: float(getattr(det, k)) for k in ("threshold_", "penalty_", "collective_penalty_",
                                                   "point_penalty_") if hasattr(det, k)}

    rec("fit", fit)
    if out["fit"][0] != "ok":
        return out
    rec("predict", lambda: det.predict(A))
    rec("scores_table", lambda: None if not isinstance(getattr(det, "scores", None), pd.DataFrame)
        else det.scores.to_numpy(dtype=float))
    rec("transform", lambda: det.transform(A))
    rec("transform_scores", lambda: det.transform_scores(A))
    rec("predict_other", lambda: det.predict(C))
    # update with the next chunk, then predict it
    det2 = None

    def upd():
        nonlocal det2
        det2 = build(spec).fit(A)
        det2.update(B)
        return {k: float(getattr(det2, k)) for k in ("threshold_", "penalty_", "collective_penalty_",
                                                    "point_penalty_") if hasattr(det2, k)}

    rec("update", upd)
    if out["update"][0] == "ok":
        rec("update_predict", lambda: det2.predict(B))

        # whatever the index kind: update(new) == fit(new.combine_first(old))
        def combined():
            a = A if isinstance(A, (pd.Series, pd.DataFrame)) else pd.DataFrame(A)
            b = B if isinstance(B, (pd.Series, pd.DataFrame)) else pd.DataFrame(B)
            twin = build(spec).fit(b.combine_first(a))
            return {k: float(getattr(twin, k)) for k in ("threshold_", "penalty_", "collective_penalty_",
                                                        "point_penalty_") if hasattr(twin, k)}

        rec("fit_on_combined", combined)
    return out


def same_value(a, b):
    if isinstance(a, pd.DataFrame) and "ilocs" in a.columns:
        return isinstance(b, pd.DataFrame) and CV.same_sparse(a, b)
    if isinstance(a, dict):
        return isinstance(b, dict) and a.keys() == b.keys() and all(
            abs(a[k] - b[k]) <= 1e-9 * (1 + abs(a[k])) or (a[k] == b[k]) for k in a)
    if a is None or b is None:
        return a is None and b is None
    va = np.asarray(a.to_numpy() if hasattr(a, "to_numpy") else a, dtype=float)
    vb = np.asarray(b.to_numpy() if hasattr(b, "to_numpy") else b, dtype=float)
    if va.size == 0 or vb.size == 0:
        return va.shape == vb.shape
    va, vb = va.reshape(len(va), -1), vb.reshape(len(vb), -1)
    return va.shape == vb.shape and bool(np.all((np.abs(va - vb) <= 1e-9 * (1 + np.abs(va))) | (va == vb)))


def make_recipe(rng, tier, which):
    spec, nmin, p = random_detector(rng, dense_events=True, pmax=3, which=which)
    if "GaussianCovCost" in short(spec):
        spec, nmin, p = random_detector(rng, dense_events=True, pmax=3, which=which)
    hi = 35 if tier == "quick" else 70
    if which == "CircularBinarySegmentation":
        hi = 22
    n = int(rng.integers(max(nmin, 6), max(nmin, 6) + hi))
    nb = int(rng.integers(max(nmin, 4), max(nmin, 4) + 15))
    # a share of the cases holds large integers (counters, epoch seconds ~1e9): exactly representable
    # in float64 and in int64 alike, but their squares summed over a few rows leave the int64 range
    big = 1_000_000_000 if rng.random() < 0.15 else 0
    return {"kind": "detector", "det": spec, "overlap": int(rng.integers(0, 6)) if rng.random() < 0.6 else 0,
            "big": big,
            "A": integer_data(rng, n, p) + big, "B": integer_data(rng, nb, p) + big,
            "C": integer_data(rng, int(rng.integers(max(nmin, 4), max(nmin, 4) + 20)), p) + big}


def detector_case(ctx, r):
    A, B, C = (np.asarray(r[k], dtype=np.int64) for k in "ABC")
    n, p = A.shape
    spec = r["det"]
    name = spec["cls"]
    ctx.stat(f"det[{name}]")
    if r.get("big"):
        ctx.stat("cases[large integers]")
    label = f"{short(spec)} A[{n}x{p}]" + (" (values ~1e9)" if r.get("big") else "")
    sub = "representation"
    I.drain()
    reps = list(REPS) + (REPS_P1 if p == 1 else [])
    if name == "StatThresholdAnomaliser":
        reps = [x for x in reps]  # all univariate forms
    try:
        with time_limit(240):
            # update is index-semantic: default-index frames and arrays overlay (labels 0..m-1
            # again), frames with another index continue where the training data ended
            base = observe(spec, represent(A, "baseline"), represent(B, "baseline"), represent(C, "baseline"))
            results = {}
            for rep in reps:
                off = 0 if index_semantics(rep) == "range0" else n - int(r.get("overlap", 0))
                results[rep] = observe(spec, represent(A, rep), represent(B, rep, offset=off),
                                       represent(C, rep))
            # update is index-semantic: reference for each semantics is the float DataFrame with that index
            upd_ref = {"range0": base}
            for sem, rep in (("range_offset", "df_offset"), ("range_step", "df_step"),
                             ("datetime", "df_datetime"), ("period", "df_period")):
                upd_ref[sem] = results[rep]
    except CaseTimeout:
        ctx.stat("case_timeouts")
        return
    I.drain()
    events = base.get("predict", ("exc",))[0] == "ok" and len(base["predict"][1]) >= 1
    if events:
        ctx.stat("baseline_with_events")
    # ---- ONE fitted object asked with every representation in turn ------------------------------
    # (results must not depend on the form of an earlier call: a cache keyed on the bare numbers
    # would hand back an output carrying the earlier call's index or dtype)
    if base.get("fit", ("exc",))[0] == "ok":
        # every (representation, entry point) pair once, in a fully shuffled order: any entry point
        # may directly follow any other one on another form of the same numbers
        pairs = [(rep, entry) for rep in reps for entry in ("predict", "transform_scores", "transform")]
        order = np.random.default_rng(len(r["A"]) + p).permutation(len(pairs))
        try:
            with time_limit(120):
                one = build(spec).fit(represent(A, "baseline"))
                for j in order:
                    rep, entry = pairs[int(j)]
                    if True:
                        if base.get(entry, ("exc",))[0] != "ok":
                            continue
                        Xr = represent(A, rep)
                        try:
                            val = getattr(one, entry)(Xr)
                        except CaseTimeout:
                            raise
                        except Exception as ex:
                            ctx.violation(sub, f"exception-one-representation[{entry}]",
                                          f"{label}: one fitted object, {entry} with representation {rep} raised "
                                          f"{type(ex).__name__}: {str(ex)[:120]}", r, {"rep": rep, "entry": entry})
                            continue
                        ctx.stat("same_object_calls")
                        if not same_value(base[entry][1], val):
                            ctx.violation(sub, f"different-output[{entry}]", f"{label}: one fitted object asked "
                                          f"with representation {rep} after other forms: {entry} differs from "
                                          f"the reference", r, {"rep": rep, "entry": entry})
                        if entry != "predict":
                            want = Xr.index if hasattr(Xr, "index") else pd.RangeIndex(n)
                            if not (val.index.equals(want) and type(val.index) is type(want)):
                                ctx.violation(sub, f"dense-index[{entry}]", f"{label}: one fitted object: {entry} "
                                              f"with representation {rep} carries index {val.index!r:.100}, not "
                                              f"X's own (earlier calls used other forms)", r,
                                              {"rep": rep, "entry": entry})
        except CaseTimeout:
            ctx.stat("case_timeouts")
    for rep, obs in list(results.items()) + [("baseline", base)]:
        u, c = obs.get("update"), obs.get("fit_on_combined")
        if u and c and u[0] == "ok" and c[0] == "ok":
            ctx.stat("update_vs_fit_combined")
            if not same_value(c[1], u[1]):
                ctx.violation(sub, "update-vs-fit-combined", f"{label}: representation {rep}: fitted parameters "
                              f"after update {u[1]} != fit on old+new combined {c[1]}", r, {"rep": rep})
    for rep, obs in results.items():
        ctx.case()  # one case = one (configuration, data, representation) compared with the baseline
        ctx.stat("representations_compared")
        for entry, (st, val) in obs.items():
            if entry == "fit_on_combined":
                continue
            ref = base
            if entry in ("update", "update_predict"):
                if index_semantics(rep) not in upd_ref:
                    continue  # tied labels: what "the same label" replaces is not defined by the statement
                ref = upd_ref[index_semantics(rep)]
                # ndarray / default-index frames: overlay semantics, compared with the baseline frame
                ctx.stat("update_pairs")
            if entry not in ref:
                continue
            rst, rval = ref[entry]
            if st != rst:
                if st == "exc" and rst == "exc":
                    continue
                ctx.violation(sub, f"exception-one-representation[{entry}]",
                              f"{label}: {entry} with representation {rep}: "
                              f"{val if st == 'exc' else 'ok'} but reference representation: "
                              f"{rval if rst == 'exc' else 'ok'}", r, {"rep": rep, "entry": entry})
                continue
            if st == "exc":
                continue
            if not same_value(rval, val):
                ctx.violation(sub, f"different-output[{entry}]", f"{label}: {entry} differs between "
                              f"representation {rep} and the reference: "
                              f"{str(val)[:200]!r} vs {str(rval)[:200]!r}", r, {"rep": rep, "entry": entry})
            # dense outputs carry X's own index
            if entry in ("transform", "transform_scores"):
                X_rep = represent(A, rep)
                want = X_rep.index if hasattr(X_rep, "index") else pd.RangeIndex(n)
                if not (val.index.equals(want) and type(val.index) is type(want)):
                    ctx.violation(sub, f"dense-index[{entry}]", f"{label}: {entry} with representation "
                                  f"{rep} carries index {val.index!r:.120}, not X's own", r,
                                  {"rep": rep, "entry": entry})
        if events:
            ctx.nt(digest([spec, r["A"], rep]))
    ctx.sample({"case": label, "representations": reps,
                "baseline_predict": base["predict"][1].astype(str).to_dict("list")
                if base.get("predict", ("exc",))[0] == "ok" else str(base.get("predict"))}, cap=3)


def scorer_case(ctx, r):
    X = np.asarray(r["X"], dtype=np.int64)
    n, p = X.shape
    spec = r["spec"]
    label = f"{short(spec)} X[{n}x{p}]"
    rng = np.random.default_rng(r["sub_seed"])
    k = build(spec).expected_cut_entries
    ms = build(spec).fit(X.astype(float)).min_size or 1
    cuts = []
    for _ in range(300):
        c = np.sort(rng.choice(n + 1, size=k, replace=False))
        d = np.diff(c)
        if d.min() >= ms:
            cuts.append(c)
        if len(cuts) >= 25:
            break
    if not cuts:
        return
    cuts = np.array(cuts, dtype=np.int64)
    reps = ["baseline"] + REPS + (REPS_P1 if p == 1 else [])
    vals = {}
    for rep in reps:
        try:
            vals[rep] = ("ok", build(spec).fit(represent(X, rep)).evaluate(cuts))
        except Exception as ex:
            vals[rep] = ("exc", f"{type(ex).__name__}: {ex}"[:200])
    b = vals["baseline"]
    for rep in reps[1:]:
        ctx.case()
        ctx.stat("scorer_representations")
        st, v = vals[rep]
        if st != b[0]:
            ctx.violation("scorer-representation", "exception-one-representation", f"{label}: representation "
                          f"{rep}: {v if st == 'exc' else 'ok'}; baseline: {b[1] if b[0] == 'exc' else 'ok'}",
                          r, {"rep": rep})
        elif st == "ok" and not same_value(b[1], v):
            ctx.violation("scorer-representation", "different-values", f"{label}: evaluate differs for "
                          f"representation {rep}", r, {"rep": rep})
        if st == "ok":
            ctx.nt(digest([spec, r["X"], rep]))


def exec_case(ctx, r):
    if r["kind"] == "detector":
        detector_case(ctx, r)
    else:
        scorer_case(ctx, r)


def run(ctx):
    I.install()
    for i in range(CASES[ctx.tier]):
        exec_case(ctx, make_recipe(ctx.rng, ctx.tier, DETECTORS[i % len(DETECTORS)]))
    for i, name in enumerate(SCORER_NAMES):
        if i % ctx.nshards != ctx.shard % len(SCORER_NAMES) and ctx.nshards > 1:
            pass
        for rep_i in range(2 if ctx.tier == "quick" else 8):
            if (i + rep_i) % ctx.nshards != ctx.shard:
                continue
            p = int(ctx.rng.integers(1, 4))
            spec, _ = make_scorer(ctx.rng, name, p)
            n = int(ctx.rng.integers(3 * (p + 1), 25))
            X = integer_data(ctx.rng, n, p)
            X = X + np.arange(n)[:, None] % 3  # keep slices non-singular
            exec_case(ctx, {"kind": "scorer", "spec": spec, "X": X,
                            "sub_seed": int(ctx.rng.integers(2 ** 31))})


def replay(ctx, sub, recipe):
    I.install()
    exec_case(ctx, recipe)
