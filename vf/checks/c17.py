"""C17 - StatThresholdAnomaliser flags exactly the out-of-range segments."""
import numpy as np

from vf import instrument as I
from vf.core import CaseTimeout, digest, time_limit
from vf.gen import gen_data
from vf.instrument import params_digest
from vf.spec import INDEX_KINDS, build, make_frame, short
from vf.userdefs import FUNCTIONS
from vf.zoo import anomaliser

SHARDS = {"quick": 16, "thorough": 16}
WATCHDOG = {"quick": 1800, "thorough": 7200}
CASES = {"quick": 150, "thorough": 2000}
FLOORS = {
    "quick": {"cases[wrapped detector reconfigured after the anomaliser was built]": 400, "cases[trained on a series of another length]": 311, "distinct_nontrivial": 670, "segments_checked": 4500, "cases_with_adjacent_flagged": 570,
              "cases[ScriptedChangeDetector]": 250, "cases[PELT]": 230, "wrapped_untouched_checks": 940},
    "thorough": {"distinct_nontrivial": 4000, "segments_checked": 50000},
}
ANCHORS = [
    "skchange.anomaly_detectors.anomalisers.StatThresholdAnomaliser._fit",
    "skchange.anomaly_detectors.anomalisers.StatThresholdAnomaliser._predict",
]
LEVEL = "exploration"
RULE = (
    "case = StatThresholdAnomaliser(wrapped in {PELT, MovingWindow, SeededBinarySegmentation (zoo "
    "configurations), ScriptedChangeDetector with arbitrary given changepoints incl. none, 1, n-1, "
    "consecutive}, stat in {mean, median, user range/first}, bounds lower<=upper incl. equal) on seeded "
    "univariate data (Series or one-column DataFrame, 5 index types + a monotonic DatetimeIndex with tied stamps), n<=60 (150). Oracle: anomalies "
    "== the segments [c_i, c_{i+1}) delimited by the changepoints of an INDEPENDENTLY built and "
    "fitted copy of the wrapped detector on the same data whose statistic is < lower or > upper, each "
    "its own interval; the user's wrapped detector stays unfitted with unchanged parameters (in 30% of "
    "the cases the user fitted it on other data before wrapping it: that fit must be left as it was and "
    "a clone, not the object itself, must be used). "
    "Non-trivial = >=2 segments with >=1 flagged and >=1 unflagged, or adjacent flagged segments; "
    "distinct by recipe digest."
)
ASSUMPTIONS = ["ndarray input belongs to C11, the constructor's error path to C14"]


def make_recipe(rng, tier):
    spec, nmin = anomaliser(rng, 1, True)
    n = int(rng.integers(max(nmin, 2), max(nmin, 2) + (60 if tier == "quick" else 150)))
    kind = ["mean_changes", "mean_changes", "piecewise_const", "spikes", "noise", "small_alphabet",
            "collective", "flat", "steps"][int(rng.integers(9))]
    X, _ = gen_data(rng, n, 1, kind)
    inner = spec["kw"]["change_detector"]
    if inner["cls"] == "ScriptedChangeDetector" and rng.random() < 0.5:
        k = int(rng.integers(0, 7))
        cp = set(int(c) for c in rng.integers(1, max(2, n), size=k))
        if rng.random() < 0.4:
            cp |= {1, n - 1}
        if rng.random() < 0.4 and n > 4:
            q = int(rng.integers(1, n - 2))
            cp |= {q, q + 1}
        inner["kw"]["changepoints"] = sorted(c for c in cp if 0 < c < n)
    prefit = None
    if rng.random() < 0.3:
        # the user explored the detector on other data (other length, other scale) before wrapping it
        m = int(rng.integers(max(nmin, 2), max(nmin, 2) + 80))
        prefit = (gen_data(rng, m, 1, "mean_changes")[0] * float(rng.choice([0.2, 1.0, 30.0]))).tolist()
    int_dtype = bool(rng.random() < 0.2)
    if int_dtype:
        X = np.round(2 * X)  # count-like data, passed with an integer dtype
    out = {"det": spec, "X": X, "int_dtype": int_dtype, "container": "series" if rng.random() < 0.5 else "frame",
           "index": (INDEX_KINDS + ["datetime_ties"])[int(rng.integers(6))], "data_kind": kind,
           "prefit": prefit}
    if rng.random() < 0.3:
        # trained on a series of another length, then asked about X: the segments are those of X
        m = int(rng.integers(max(nmin, 2), max(nmin, 2) + 90))
        T = gen_data(rng, m, 1, "mean_changes")[0]
        out["train"] = (np.round(2 * T) if int_dtype else T).tolist()
    return out


def _fitted_state(obj):
    """(fitted flag, fitted attributes and the digest of the training data) of a detector"""
    out = [bool(getattr(obj, "_is_fitted", False))]
    for a in sorted(vars(obj)):
        if a.endswith("_") and not a.startswith("_"):
            v = getattr(obj, a)
            out.append((a, repr(v) if not hasattr(v, "get_params") else params_digest(v)))
    out.append(I.data_digest(getattr(obj, "_X", None)) if getattr(obj, "_X", None) is not None else None)
    return out


def exec_case(ctx, r):
    X = np.asarray(r["X"], dtype=float).reshape(-1, 1)
    if r.get("int_dtype"):
        X = X.astype(np.int64)
    n = X.shape[0]
    spec = r["det"]
    kw = spec["kw"]
    inner_spec = kw["change_detector"]
    df = make_frame(X, r["index"], dtype=str(X.dtype))
    data = df.iloc[:, 0] if r["container"] == "series" else df
    ctx.case()
    ctx.stat(f"cases[{inner_spec['cls']}]")
    if r.get("int_dtype"):
        ctx.stat("cases[int64 data]")
    label = f"{short(spec)} X[{n}] {r['container']} index={r['index']} data={r['data_kind']}"
    sub = "anomaliser"
    I.drain()
    try:
        with time_limit(60):
            wrapped = build(inner_spec)
            if r.get("prefit") is not None:
                wrapped.fit(np.asarray(r["prefit"], dtype=float))
                ctx.stat("cases[wrapped detector pre-fitted by the user]")
            from skchange.anomaly_detectors.anomalisers import StatThresholdAnomaliser

            # The wrapped detector gets its real configuration only AFTER the anomaliser was built around it (through
            # the anomaliser's nested set_params, or on the object the caller still holds): the segments must be
            # those of the detector as configured when fit is called.
            late = None
            hs = int(abs(float(np.sum(X[:3]))) * 1e6) % 10
            if hs < 4 and r.get("prefit") is None:
                ik = inner_spec["kw"]
                for name_, alt in (("changepoints", [1]), ("bandwidth", (ik.get("bandwidth") or 0) + 3),
                                   ("penalty_scale", 7.5), ("threshold_scale", 9.0)):
                    if name_ in ik and ik[name_] is not None and ik[name_] != alt:
                        late = (name_, ik[name_])
                        wrapped = build({"cls": inner_spec["cls"], "kw": dict(ik, **{name_: alt})})
                        break
            det = StatThresholdAnomaliser(wrapped, stat=FUNCTIONS[kw["stat"]["fn"]],
                                          stat_lower=kw["stat_lower"], stat_upper=kw["stat_upper"])
            if late is not None:
                if hs % 2:
                    det.set_params(**{"change_detector__" + late[0]: late[1]})
                    wrapped = det.change_detector
                else:
                    wrapped.set_params(**{late[0]: late[1]})
                ctx.stat("cases[wrapped detector reconfigured after the anomaliser was built]")
            before = params_digest(wrapped)
            fitted_before = _fitted_state(wrapped)
            train = data
            if r.get("train") is not None:
                T = np.asarray(r["train"], dtype=float)
                T = T.astype(np.int64) if r.get("int_dtype") else T
                tf = make_frame(T, r["index"], dtype=str(T.dtype))
                train = tf.iloc[:, 0] if r["container"] == "series" else tf
                ctx.stat("cases[trained on a series of another length]")
            det.fit(train)
            y = det.predict(data)
            twin = build(inner_spec).fit(train)
            cp = [int(c) for c in twin.predict(data)["ilocs"].tolist()]
    except CaseTimeout:
        ctx.stat("case_timeouts")
        return
    except RuntimeError as ex:
        if "GaussianCovCost" in short(spec) and "positive definite" in str(ex):
            ctx.stat("documented_runtimeerror")
            return
        ctx.violation(sub, "exception", f"{label}: {type(ex).__name__}: {ex}", r)
        return
    except Exception as ex:
        ctx.violation(sub, "exception", f"{label}: {type(ex).__name__}: {ex}", r)
        return
    ctx.stat("wrapped_untouched_checks")
    fitted_attrs = [a for a in vars(wrapped) if a.endswith("_") and not a.startswith("_")]
    if r.get("prefit") is None:
        altered = getattr(wrapped, "_is_fitted", False) or fitted_attrs
    else:  # the user's own fit must be left exactly as it was
        altered = _fitted_state(wrapped) != fitted_before
    if altered or params_digest(wrapped) != before or det.change_detector is not wrapped \
            or getattr(det, "change_detector_", None) is wrapped:
        ctx.violation(sub, "wrapped-detector-altered", f"{label}: the detector passed by the user was "
                      f"fitted, altered or used itself instead of a clone (is_fitted="
                      f"{getattr(wrapped, '_is_fitted', None)}, fitted attributes {fitted_attrs}, "
                      f"change_detector_ is the user's object: {getattr(det, 'change_detector_', None) is wrapped})", r)
    stat = FUNCTIONS[kw["stat"]["fn"]]
    lo, hi = kw["stat_lower"], kw["stat_upper"]
    edges = [0] + cp + [n]
    want, flags = [], []
    for a, b in zip(edges[:-1], edges[1:]):
        ctx.stat("segments_checked")
        v = stat(X[a:b, 0])
        if v != v:
            ctx.stat("segments_with_nan_statistic")  # neither below nor above: must not be flagged
        f = bool(v < lo or v > hi)
        flags.append(f)
        if f:
            want.append((a, b))
    arr = y["ilocs"].array
    got = list(zip(np.asarray(arr.left).astype(int).tolist(), np.asarray(arr.right).astype(int).tolist()))
    if got != want:
        ctx.violation(sub, "flagged-segments", f"{label}: reported {got} but the out-of-range segments "
                      f"for changepoints {cp} and bounds [{lo}, {hi}] are {want}", r)
    elif y["labels"].tolist() != list(range(1, len(got) + 1)):
        ctx.violation(sub, "labels", f"{label}: labels {y['labels'].tolist()}", r)
    for h in I.drain():
        if h["contract"] == "K1" and h["cls"] == "StatThresholdAnomaliser":
            ctx.violation("contract-K1", "malformed", f"{label}: {h['message']}", r)
    adjacent = any(a and b for a, b in zip(flags[:-1], flags[1:]))
    if adjacent:
        ctx.stat("cases_with_adjacent_flagged")
    if (len(flags) >= 2 and any(flags) and not all(flags)) or adjacent:
        ctx.nt(digest([spec, r["X"], r["container"], r["index"]]))
    ctx.sample({"case": label, "changepoints": cp, "flags": flags, "anomalies": got}, cap=3)


def run(ctx):
    I.install()
    for _ in range(CASES[ctx.tier]):
        exec_case(ctx, make_recipe(ctx.rng, ctx.tier))


def replay(ctx, sub, recipe):
    I.install()
    exec_case(ctx, recipe)
