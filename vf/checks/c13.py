"""C13 - evaluate either rejects a cuts array or scores exactly the cuts it describes."""
import itertools

import numpy as np

from vf import instrument as I
from vf.core import digest
from vf.models import costs as M
from vf.models import scores as SM
from vf.scorers import SCORER_NAMES, desc_from_spec, make_scorer
from vf.spec import build, short

SHARDS = {"quick": 16, "thorough": 16}
WATCHDOG = {"quick": 1200, "thorough": 7200}
FLOORS = {
    "quick": {"distinct_nontrivial": 300000, "K4_evaluations": 15000, "tuples_invalid": 300000,
              "tuples_valid": 10000, "scorers_with_history": 60, "inner_cost_tuples": 5000},
    "thorough": {"distinct_nontrivial": 500000, "K4_evaluations": 50000, "tuples_valid": 40000},
}
ANCHORS = [
    "skchange.base.base_interval_scorer.BaseIntervalScorer.evaluate",
    "skchange.utils.validation.cuts.check_cuts_array",
    "skchange.anomaly_scores.from_cost.LocalAnomalyScore._check_cuts",
    "skchange.utils.validation.data.as_2d_array",
]
LEVEL = "exploration"
EXHAUSTIVE_SUBSPACES = {
    "quick": ["all integer tuples of the box [-2,n+2]^k, n in {3,...,7} (k = 4: n <= 6), for each of the "
              "19 built-in scorer kinds (k = 2, 3 or 4), each tuple alone as int64, p in {1,2,3}"],
    "thorough": ["all integer tuples of the box [-2,n+2]^k, n in {3,...,10} (k = 4: n <= 8), for each "
                 "of the 19 built-in scorer kinds, each tuple alone as int64, p in {1,2,3,4}"],
}
RULE = (
    "exhaustive box [-2,n+2]^k of integer tuples per scorer kind and small n (each tuple alone), "
    "then the same tuples in other integer dtypes (int8..int64, uint8..uint64), mixed batches "
    "(valid rows + one invalid row), and malformed arguments (float, bool, object, 3-D, wrong "
    "width, ragged, lists). Oracle: validity predicate from the statement -> invalid must raise "
    "ValueError, valid must return the model value (interval) of exactly that cut; contract K4 "
    "checks the soundness half on every evaluate call. Half of the scorer objects were fitted to a "
    "series of another length and evaluated once before being fitted to X; the cost object handed to "
    "an adapter (kept and fitted by it) is judged by the same oracle over its own box. Non-trivial = (scorer kind, n, p, tuple) "
    "that is invalid, or valid and value-checked; distinct by that key."
)
ASSUMPTIONS = [
    "empty (0,k) cuts arrays are not generated (the statement is silent on them)",
    "data are continuous random draws, so no slice covariance is singular",
]

SIGNED = [np.int8, np.int16, np.int32, np.int64]
UNSIGNED = [np.uint8, np.uint16, np.uint32, np.uint64]


def make_recipe(rng, name, n, p):
    spec, _ = make_scorer(rng, name, p)
    X = rng.normal(0, 2, size=(n, p)).round(4)
    # half of the scorers have a history: fitted to another series (other length) and evaluated
    # once before being fitted to X (what evaluate accepts must depend on the last fit only)
    prefit = int(n + rng.choice([-2, -1, 1, 3, 4])) if rng.random() < 0.5 else None
    return {"name": name, "spec": spec, "X": X, "sub_seed": int(rng.integers(2 ** 31)), "prefit": prefit}


def _call(scorer, arg):
    """('ok', value) | ('ValueError', msg) | ('other', 'Type: msg')"""
    try:
        return "ok", scorer.evaluate(arg)
    except ValueError as ex:
        return "ValueError", str(ex)
    except Exception as ex:  # noqa
        return "other", f"{type(ex).__name__}: {ex}"


def exec_case(ctx, r):
    sub = "cuts-validation"
    X = np.asarray(r["X"], dtype=float)
    n, p = X.shape
    spec = r["spec"]
    desc = desc_from_spec(spec)
    k = SM.n_cut_entries(desc)
    rng = np.random.default_rng(r["sub_seed"])
    scorer = build(spec)
    if r.get("prefit"):
        n0 = max(int(r["prefit"]), 2 * p + 4)
        X0 = np.random.default_rng(r["sub_seed"] + 1).normal(3, 2, size=(n0, p))
        try:
            scorer.fit(X0)
            first = [0, n0] if k == 2 else ([0, n0 // 2, n0] if k == 3 else [0, p + 1, 2 * p + 2, n0])
            if SM.cut_is_valid(desc, tuple(first), n0, p):
                scorer.evaluate(np.array([first], dtype=np.int64))
                ctx.stat("scorers_with_history")
        except Exception as ex:  # noqa
            ctx.violation(sub, "history-exception", f"{short(spec)}: fit/evaluate on the earlier series "
                          f"[{n0}x{p}] raised {type(ex).__name__}: {ex}", r)
            return
    scorer.fit(X)
    tol = M.DataTol(X)
    ctx.stat(f"scorer[{r['name']}]")
    label = f"{short(spec)} n={n} p={p}"
    I.drain()

    def judge(arg, cut_rows, how, target=None, desc=desc, label=label):
        """cut_rows: list of integer tuples the argument denotes (for the oracle)."""
        ctx.case()  # one case = one evaluate() call judged by the validity/value oracle
        valid = all(SM.cut_is_valid(desc, c, n, p) for c in cut_rows)
        status, val = _call(scorer if target is None else target, arg)
        if not valid:
            ctx.stat("tuples_invalid", len(cut_rows))
            if status == "ok":
                ctx.violation(sub, "accepted-invalid",
                              f"{label}: evaluate({how}) accepted invalid cuts {cut_rows[:3]} "
                              f"-> {np.asarray(val).tolist()!r:.200}", r, {"cuts": cut_rows[:5], "how": how})
            elif status == "other":
                ctx.violation(sub, "wrong-exception",
                              f"{label}: evaluate({how}) of invalid cuts {cut_rows[:3]} raised {val}",
                              r, {"cuts": cut_rows[:5], "how": how})
            return None
        ctx.stat("tuples_valid", len(cut_rows))
        if status != "ok":
            ctx.violation(sub, "rejected-valid",
                          f"{label}: evaluate({how}) of valid cuts {cut_rows[:3]} raised {status}: {val}",
                          r, {"cuts": cut_rows[:5], "how": how})
            return None
        val = np.asarray(val)
        for i, c in enumerate(cut_rows):
            iv = SM.score_interval(desc, X, tol, c)
            if iv is None:
                ctx.stat("singular_skipped")
                continue
            if val.ndim != 2 or i >= val.shape[0] or not (
                    np.all(np.isfinite(val[i])) and np.all(val[i] >= iv[0]) and np.all(val[i] <= iv[1])):
                ctx.violation(sub, "wrong-value",
                              f"{label}: evaluate({how}) row {c} = "
                              f"{val[i].tolist() if val.ndim == 2 and i < val.shape[0] else val.tolist()} "
                              f"outside [{np.asarray(iv[0]).tolist()}, {np.asarray(iv[1]).tolist()}]",
                              r, {"cuts": cut_rows[:5], "how": how})
                break
            ctx.stat("values_checked")
        return val

    # 1. exhaustive box, each tuple alone, int64 --------------------------------
    box = list(itertools.product(range(-2, n + 3), repeat=k))
    valid_tuples = []
    for c in box:
        judge(np.array([c], dtype=np.int64), [c], "int64 row")
        if SM.cut_is_valid(desc, c, n, p):
            valid_tuples.append(c)
        ctx.nt(digest([r["name"], n, p, list(c)]))
    ctx.stat("box_tuples", len(box))

    # 2. other integer dtypes, 1-D form, python lists ------------------------------
    sel = [box[i] for i in rng.choice(len(box), size=min(len(box), 150), replace=False)]
    for c in sel:
        dt = SIGNED[int(rng.integers(len(SIGNED)))]
        judge(np.array([c], dtype=dt), [c], np.dtype(dt).name)
        if min(c) >= 0:
            du = UNSIGNED[int(rng.integers(len(UNSIGNED)))]
            judge(np.array([c], dtype=du), [c], np.dtype(du).name)
            ctx.stat("unsigned_tuples")
        judge(np.array(c, dtype=np.int64), [c], "1-D int64")
        judge([list(c)], [c], "nested list")
    # decreasing unsigned rows (np.diff wraps around for unsigned dtypes)
    for _ in range(40):
        c = tuple(sorted(rng.integers(0, n + 1, size=k).tolist(), reverse=True))
        if len(set(c)) == 1:
            continue
        du = UNSIGNED[int(rng.integers(len(UNSIGNED)))]
        judge(np.array([c], dtype=du), [c], f"decreasing {np.dtype(du).name}")
        ctx.stat("unsigned_decreasing")

    # 3. mixed batches ---------------------------------------------------------------
    if valid_tuples:
        for _ in range(60):
            m = int(rng.integers(1, 6))
            rows = [valid_tuples[int(i)] for i in rng.integers(len(valid_tuples), size=m)]
            if rng.random() < 0.7:
                bad = box[int(rng.integers(len(box)))]
                rows.insert(int(rng.integers(len(rows) + 1)), bad)
            judge(np.array(rows, dtype=np.int64), rows, "mixed batch")
            ctx.stat("mixed_batches")

    # 4. malformed arguments -----------------------------------------------------------
    if valid_tuples:
        v = valid_tuples[int(rng.integers(len(valid_tuples)))]
        malformed = [
            ("float64", np.array([v], dtype=float)),
            ("float32", np.array([v], dtype=np.float32)),
            ("bool", np.array([v]) > 0),
            ("object", np.array([v], dtype=object)),
            ("3-D", np.array([[v]], dtype=np.int64)),
            ("too narrow", np.array([v[:-1]], dtype=np.int64)),
            ("too wide", np.array([tuple(v) + (n,)], dtype=np.int64)),
            ("transposed", np.array([v], dtype=np.int64).T),
            ("str", np.array([[str(x) for x in v]])),
            ("float list", [[float(x) for x in v]]),
            ("ragged", [list(v), list(v)[:-1]]),
            ("scalar", int(v[0])),
        ]
        for how, arg in malformed:
            status, val = _call(scorer, arg)
            ctx.stat("malformed_args")
            if how == "transposed" and k == 1:
                continue
            if status == "ok":
                ctx.violation(sub, "accepted-malformed",
                              f"{label}: evaluate({how}: {arg!r:.80}) returned {np.asarray(val).tolist()!r:.120}",
                              r, {"how": how})
            elif status == "other":
                ctx.violation(sub, "wrong-exception-malformed",
                              f"{label}: evaluate({how}) raised {val}", r, {"how": how})

    # 5. the cost the caller handed to an adapter -------------------------------------------
    # ChangeScore(cost) / Saving(baseline_cost) / LocalAnomalyScore(cost) keep the caller's own cost
    # object and fit it: it is a public, fitted interval scorer and its evaluate must keep rejecting
    # what it cannot score, whatever the adapter does with it internally.
    inner_key = next((a for a in ("cost", "baseline_cost") if isinstance(spec.get("kw", {}).get(a), dict)), None)
    inner = getattr(scorer, inner_key, None) if inner_key else None
    if inner is not None and getattr(inner, "_is_fitted", False):
        idesc = desc_from_spec(spec["kw"][inner_key])
        ilabel = f"{label} -> the caller's own {short(spec['kw'][inner_key])}"
        ibox = list(itertools.product(range(-2, n + 3), repeat=2))
        for c in ibox:
            judge(np.array([c], dtype=np.int64), [c], "int64 row", target=inner, desc=idesc, label=ilabel)
        ctx.stat("inner_cost_tuples", len(ibox))
        v2 = next((c for c in ibox if SM.cut_is_valid(idesc, c, n, p)), None)
        if v2 is not None:
            for how, arg in [("float64", np.array([v2], dtype=float)), ("too wide", np.array([v2 + (n,)], dtype=np.int64)),
                             ("3-D", np.array([[v2]], dtype=np.int64))]:
                status, val = _call(inner, arg)
                ctx.stat("malformed_args")
                if status == "ok":
                    ctx.violation(sub, "accepted-malformed", f"{ilabel}: evaluate({how}) returned "
                                  f"{np.asarray(val).tolist()!r:.120}", r, {"how": how})
                elif status == "other":
                    ctx.violation(sub, "wrong-exception-malformed", f"{ilabel}: evaluate({how}) raised {val}",
                                  r, {"how": how})

    # contract K4: soundness half observed on every evaluate call of this case ---------
    for h in I.drain():
        if h["contract"] == "K4":
            ctx.violation("contract-K4", "accepted-invalid", f"{label}: {h['message']}", r)
    ctx.sample({"scorer": short(spec), "n": n, "p": p, "box_tuples": len(box),
                "valid_in_box": len(valid_tuples), "example_valid": valid_tuples[:2]})


def plan(tier):
    ns = [3, 4, 5, 6, 7] if tier == "quick" else [3, 4, 5, 6, 7, 8, 9, 10]
    ps = [1, 2, 3] if tier == "quick" else [1, 2, 3, 4]
    out = []
    for name in SCORER_NAMES:
        for n in ns:
            for p in ps:
                if "LocalAnomalyScore" in name and n > (6 if tier == "quick" else 8):
                    continue  # (n+5)^4 tuples with a refit per valid cut: bounded for time
                out.append((name, n, p))
    return out


def run(ctx):
    I.install()
    jobs = plan(ctx.tier)
    for i in range(ctx.shard, len(jobs), ctx.nshards):
        name, n, p = jobs[i]
        exec_case(ctx, make_recipe(ctx.rng, name, n, p))
    ctx.stat("K4_evaluations", I.COUNTS["K4"])


def replay(ctx, sub, recipe):
    I.install()
    exec_case(ctx, recipe)
