"""C15 - thresholds and penalties follow their documented formulas and act monotonically."""
import itertools

import numpy as np

from vf import instrument as I
from vf.core import digest
from vf.gen import gen_data
from vf.spec import S, build, short

SHARDS = {"quick": 16, "thorough": 16}
WATCHDOG = {"quick": 1200, "thorough": 7200}
CASES = {"quick": 60, "thorough": 500}   # detector cases per shard (grid is split separately)
FLOORS = {
    "quick": {"returned_penalties_edited_in_place": 1000, "plugged_scorer[GaussianCovCost, p>=2]": 25, "update_chunks_overlapping_the_stored_tail": 274, "distinct_nontrivial": 630, "grid_points": 600, "detector_fits": 380,
              "tuned_fits": 100, "pelt_ladders": 190, "K6_evaluations": 4300},
    "thorough": {"distinct_nontrivial": 3000, "grid_points": 8000, "detector_fits": 3000},
}
ANCHORS = [
    "skchange.anomaly_detectors.mvcapa.capa_penalty",
    "skchange.anomaly_detectors.mvcapa.dense_mvcapa_penalty",
    "skchange.anomaly_detectors.mvcapa.sparse_mvcapa_penalty",
    "skchange.anomaly_detectors.mvcapa.intermediate_mvcapa_penalty",
    "skchange.anomaly_detectors.mvcapa.combined_mvcapa_penalty",
    "skchange.anomaly_detectors.mvcapa.capa_penalty_factory",
    "skchange.change_detectors.pelt.PELT.get_default_penalty",
    "skchange.change_detectors.moving_window.MovingWindow.get_default_threshold",
    "skchange.change_detectors.seeded_binseg.SeededBinarySegmentation.get_default_threshold",
    "skchange.anomaly_detectors.circular_binseg.CircularBinarySegmentation.get_default_threshold",
    "skchange.change_detectors.moving_window.MovingWindow._tune_threshold",
    "skchange.change_detectors.seeded_binseg.SeededBinarySegmentation._tune_threshold",
    "skchange.anomaly_detectors.circular_binseg.CircularBinarySegmentation._tune_threshold",
    "skchange.anomaly_detectors.capa.CAPA._get_penalty_components",
]
LEVEL = "exploration"
EXHAUSTIVE_SUBSPACES = {
    t: ["penalty families on the full grid n in {2,3,5,10,100,1e3,1e5} x p in {1,2,3,5,10,50} x "
        "params-per-variable in {1,2,3,5} x scale in {0,0.5,1,2,7}"] for t in ("quick", "thorough")}
RULE = (
    "(a) exhaustive grid over (n,p,k,scale) for capa_penalty and the dense/sparse/intermediate/"
    "combined families: formulas, non-negativity, non-decreasing cumulative penalty, proportionality "
    "to the scale, combined == pointwise min of the three cumulatives; (b) random detector "
    "configurations x data shapes: penalty_/threshold_/collective_penalty_ == scale x documented "
    "default for the TRAINING shape (also after predict on other data), proportional in the scale; "
    "(c) scale=None: threshold_ == (1-level) quantile of the training scores read from the public "
    "score outputs; (d) PELT penalty ladders: number of changepoints non-increasing. Non-trivial = "
    "grid point with p>=2 and scale not in {0,1}, or detector case with p>=2 or tuned threshold; "
    "distinct by recipe digest."
)
ASSUMPTIONS = ["relative tolerance 1e-12 on formulas",
               "ladder steps differ by a factor 1.7 or by >= 0.012 in the scale, far above rounding"]

GRID = list(itertools.product([2, 3, 5, 10, 100, 1000, 100000], [1, 2, 3, 5, 10, 50],
                              [1, 2, 3, 5], [0.0, 0.5, 1.0, 2.0, 7.0]))
GRID_THOROUGH = list(itertools.product(
    [2, 3, 4, 5, 6, 7, 8, 10, 17, 64, 100, 1000, 10 ** 4, 10 ** 5, 10 ** 6],
    [1, 2, 3, 4, 5, 6, 7, 8, 10, 12, 20, 50, 100, 300],
    [1, 2, 3, 4, 5, 6], [0.0, 1e-3, 0.5, 1.0, 2.0, 7.0, 100.0]))


def _eq(a, b, rel=1e-12):
    a, b = np.asarray(a, dtype=float), np.asarray(b, dtype=float)
    return a.shape == b.shape and bool(np.all(np.abs(a - b) <= rel * (np.abs(a) + np.abs(b)) + 1e-300))


def capa_formula(n, k, s):
    return s * (k + 2 * np.sqrt(k * np.log(n)) + 2 * np.log(n))


def grid_case(ctx, r):
    from skchange.anomaly_detectors import mvcapa as mv

    n, p, k, s = r["n"], r["p"], r["k"], r["s"]
    sub = "penalty-families"
    ctx.case()
    ctx.stat("grid_points")
    label = f"(n={n}, p={p}, n_params_per_variable={k}, scale={s})"

    def cum(pen):
        a, b = pen
        return a + np.cumsum(np.asarray(b, dtype=float))

    def family(name, f):
        try:
            return f(n, p, k, s)
        except Exception as ex:
            ctx.violation(sub, f"exception[{name}]", f"{name}{label} raised {type(ex).__name__}: {ex}", r)
            return None

    if not _eq(mv.capa_penalty(n, k, s), capa_formula(n, k, s)):
        ctx.violation(sub, "capa_penalty-formula", f"capa_penalty(n={n}, n_params={k}, scale={s}) = "
                      f"{mv.capa_penalty(n, k, s)} != {capa_formula(n, k, s)}", r)
    fams = {"dense": mv.dense_mvcapa_penalty, "sparse": mv.sparse_mvcapa_penalty,
            "combined": mv.combined_mvcapa_penalty}
    if p >= 2:
        fams["intermediate"] = mv.intermediate_mvcapa_penalty
    got = {}
    for name, f in fams.items():
        pen = family(name, f)
        if pen is None:
            return
        got[name] = pen
        a, b = pen
        b = np.asarray(b, dtype=float)
        c = cum(pen)
        if b.shape != (p,) or not np.isfinite(a) or not np.all(np.isfinite(b)):
            ctx.violation(sub, f"shape[{name}]", f"{name}{label}: alpha={a}, betas shape {b.shape}", r)
            return
        tiny = 1e-12 * (1 + np.abs(c).max())
        if a < -tiny or np.any(c < -tiny):
            ctx.violation(sub, f"negative[{name}]", f"{name}{label}: negative penalty alpha={a} cum={c.tolist()[:6]}", r)
        if np.any(np.diff(np.concatenate(([a], c))) < -tiny):
            ctx.violation(sub, f"non-monotone[{name}]",
                          f"{name}{label}: cumulative penalty decreases: betas={b.tolist()[:8]}", r)
        # proportional to the scale
        unit = family(name, lambda n_, p_, k_, s_, f=f: f(n_, p_, k_, 1.0))
        if unit is not None and not _eq(np.concatenate(([a], c)),
                                        s * np.concatenate(([unit[0]], cum(unit))), rel=1e-10):
            ctx.violation(sub, f"not-proportional[{name}]",
                          f"{name}{label}: cumulative {c.tolist()[:5]} != scale x unit-scale penalty "
                          f"{(s * cum(unit)).tolist()[:5]}", r)
    # formulas
    a, b = got["dense"]
    if not (_eq(a, capa_formula(n, p * k, s)) and _eq(b, np.zeros(p))):
        ctx.violation(sub, "dense-formula", f"dense{label} = ({a}, {np.asarray(b).tolist()[:4]}) != "
                      f"(capa_penalty(n, p*k, s)={capa_formula(n, p * k, s)}, 0)", r)
    a, b = got["sparse"]
    if not (_eq(a, 2 * s * np.log(n)) and _eq(b, np.full(p, 2 * s * np.log(k * p)))):
        ctx.violation(sub, "sparse-formula", f"sparse{label} = ({a}, {np.asarray(b).tolist()[:4]}) != "
                      f"({2 * s * np.log(n)}, {2 * s * np.log(k * p)})", r)
    if p >= 2:
        want = np.minimum(cum(got["dense"]), np.minimum(cum(got["sparse"]), cum(got["intermediate"])))
        if not _eq(cum(got["combined"]), want, rel=1e-10):
            ctx.violation(sub, "combined-not-pointwise-min",
                          f"combined{label}: cumulative {cum(got['combined']).tolist()[:5]} != pointwise "
                          f"min of dense/sparse/intermediate {want.tolist()[:5]}", r)
    else:
        # p = 1: the intermediate family is undefined (it needs p >= 2), so "the pointwise minimum of the dense,
        # sparse and intermediate ones" does not say which of the remaining readings is meant.  The library returns
        # the dense penalty (MVCAPA on one column is CAPA); the minimum of the two defined families is accepted too.
        alt = np.minimum(cum(got["dense"]), cum(got["sparse"]))
        if not (_eq(cum(got["combined"]), cum(got["dense"])) or _eq(cum(got["combined"]), alt, rel=1e-10)):
            ctx.violation(sub, "combined-p1", f"combined{label} is neither the dense penalty nor the pointwise "
                          f"minimum of the dense and the sparse one for p=1", r)
    # a caller (e.g. a user penalty callable post-processing the library's penalty) may edit the returned arrays in
    # place: a later call with the same arguments must still return the penalty of those arguments
    for name, f in fams.items():
        first = family(name, f)
        if first is None:
            continue
        a1, b1 = first
        keep = np.array(b1, dtype=float, copy=True)
        if isinstance(b1, np.ndarray) and b1.flags.writeable:
            b1 *= 0.25
            b1 -= 1.0
            ctx.stat("returned_penalties_edited_in_place")
            again = family(name, f)
            if again is not None and not (_eq(again[0], a1) and _eq(np.asarray(again[1], dtype=float), keep)):
                ctx.violation(sub, "result-shared-between-calls", f"{name}{label}: after the caller edited the returned "
                              f"betas in place, the next call returns {np.asarray(again[1]).tolist()[:4]} instead of "
                              f"{keep.tolist()[:4]}", r)
    # factory
    for name, f in fams.items():
        if mv.capa_penalty_factory(name) is not getattr(mv, f"{name}_mvcapa_penalty"):
            ctx.violation(sub, "factory", f"capa_penalty_factory({name!r}) returned another function", r)
    try:
        mv.capa_penalty_factory("no-such-penalty")
        ctx.violation(sub, "factory", "capa_penalty_factory accepted an unknown penalty name", r)
    except ValueError:
        pass
    except Exception as ex:
        ctx.violation(sub, "factory", f"capa_penalty_factory(unknown) raised {type(ex).__name__}", r)
    if mv.capa_penalty_factory(mv.capa_penalty) is not mv.capa_penalty:
        ctx.violation(sub, "factory", "capa_penalty_factory did not return a callable as it is", r)
    if p >= 2 and s not in (0.0, 1.0):
        ctx.nt(digest(r))
    ctx.sample({"grid_point": label})


# ------------------------------------------------------------------ detectors
DETECTORS = ["PELT", "SeededBinarySegmentation", "MovingWindow", "CircularBinarySegmentation", "CAPA"]


def make_det_recipe(rng, tier):
    det = DETECTORS[int(rng.integers(len(DETECTORS)))]
    p = int(rng.integers(1, 5))
    s = float(rng.choice([0.0, 0.3, 1.0, 2.0, 3.7]))
    tuned = det in ("SeededBinarySegmentation", "MovingWindow", "CircularBinarySegmentation") \
        and rng.random() < 0.4
    level = float(rng.choice([0.01, 0.1, 0.25, 0.5, 0.9]))
    nmax = 60 if tier == "quick" else 150
    kw = {}
    if det == "PELT":
        msl = int(rng.integers(1, 5))
        kw = dict(penalty_scale=s, min_segment_length=msl)
        nmin = 2 * msl
    elif det == "SeededBinarySegmentation":
        msl = int(rng.integers(1, 5))
        kw = dict(threshold_scale=None if tuned else s, level=level, min_segment_length=msl,
                  max_interval_length=int(rng.integers(2 * msl, 60)),
                  growth_factor=float(rng.choice([1.1, 1.5, 2.0])))
        nmin = 2 * msl
    elif det == "MovingWindow":
        b = int(rng.integers(1, 8))
        kw = dict(bandwidth=b, threshold_scale=None if tuned else s, level=level)
        nmin = 2 * b
    elif det == "CircularBinarySegmentation":
        msl = int(rng.integers(1, 4))
        kw = dict(threshold_scale=None if tuned else s, level=level, min_segment_length=msl,
                  max_interval_length=int(rng.integers(2 * msl, 30)),
                  growth_factor=float(rng.choice([1.3, 1.5, 2.0])))
        nmin, nmax = 2 * msl, min(nmax, 40)
    else:
        m = int(rng.integers(2, 5))
        sav = ["L2Saving", "GaussianVarCost", "GaussianCovCost", "L2Cost"][int(rng.integers(4))]
        if sav == "L2Saving":
            cs = S("L2Saving")
        elif sav == "L2Cost":
            cs = S("L2Cost", param=0.0)
        elif sav == "GaussianVarCost":
            cs = S("GaussianVarCost", param={"tuple": [0.0, 1.0]})
        else:
            cs = S("GaussianCovCost", param={"tuple": [0.0, 1.0]})
            m = max(m, p + 1)
        kw = dict(collective_saving=cs, collective_penalty_scale=s,
                  point_penalty_scale=float(rng.choice([0.5, 1.0, 2.0])),
                  min_segment_length=m, max_segment_length=int(rng.integers(m, 40)))
        nmin = m
    # the default depends on the shape of the training data only, whatever scorer is plugged in (univariate
    # per-column scores, inherently multivariate ones with a single output column, user-defined ones)
    r2 = np.random.default_rng(int(rng.integers(2 ** 31)))
    slot = {"PELT": "cost", "SeededBinarySegmentation": "change_score", "MovingWindow": "change_score",
            "CircularBinarySegmentation": "anomaly_score"}.get(det)
    if slot and r2.random() < 0.6:
        k = ["L2Cost", "GaussianVarCost", "GaussianCovCost", "L1MV", "HashMV", "CUSUM"][int(r2.integers(6))]
        need = 1
        if k == "L2Cost":
            sc = S("L2Cost", param=None)
        elif k == "GaussianVarCost":
            sc, need = S("GaussianVarCost", param=None), 2
        elif k == "GaussianCovCost":
            sc, need = S("GaussianCovCost", param=None), p + 1
        elif k == "L1MV":
            sc = S("L1Cost", param=None, multivariate=True)
        elif k == "CUSUM" and slot == "change_score":
            sc = S("CUSUM")
        elif slot == "change_score":
            sc = S("HashChangeScore", seed=int(r2.integers(1000)), modulus=7, minsize=1, multivariate=True)
        elif slot == "anomaly_score":
            sc = S("HashLocalAnomalyScore", seed=int(r2.integers(1000)), modulus=7, multivariate=True, signed=False)
        else:
            sc = S("L2Cost", param=None)
        kw[slot] = sc
        if det == "MovingWindow":
            kw["bandwidth"] = max(kw["bandwidth"], need)
            nmin = 2 * kw["bandwidth"]
        else:
            kw["min_segment_length"] = max(kw["min_segment_length"], need)
            nmin = 2 * kw["min_segment_length"]
            if "max_interval_length" in kw:
                kw["max_interval_length"] = max(kw["max_interval_length"], nmin)
    n = int(rng.integers(nmin, max(nmin + 1, nmax)))
    n2 = int(rng.integers(nmin, max(nmin + 1, nmax)))
    X, _ = gen_data(rng, n, p, "noise" if rng.random() < 0.5 else "mean_changes")
    X2, _ = gen_data(rng, n2, p, "noise")
    return {"kind": "detector", "det": det, "kw": kw, "tuned": bool(tuned), "X": X, "X2": X2}


def det_case(ctx, r):
    X, X2 = np.asarray(r["X"], dtype=float), np.asarray(r["X2"], dtype=float)
    n, p = X.shape
    det, kw = r["det"], r["kw"]
    spec = S(det, **kw)
    sub = f"threshold-{det}"
    ctx.case()
    ctx.stat("detector_fits")
    ctx.stat(f"det[{det}]")
    for slot in ("cost", "change_score", "anomaly_score"):
        if isinstance(kw.get(slot), dict):
            ctx.stat(f"plugged_scorer[{kw[slot]['cls']}{', p>=2' if p >= 2 else ''}]")
    label = f"{short(spec)} on X[{n}x{p}]"
    try:
        d = build(spec).fit(X)
    except Exception as ex:
        if isinstance(ex, RuntimeError) and "GaussianCovCost" in str(spec):
            ctx.stat("documented_runtimeerror")  # sample covariance not positive definite (C01 / C14)
            return
        ctx.violation(sub, "fit-exception", f"{label}: fit raised {type(ex).__name__}: {ex}", r)
        return

    def want_default(n=n):
        T = type(d)
        if det == "PELT":
            return "penalty_", 2 * p * np.log(n), T.get_default_penalty(n, p), kw["penalty_scale"]
        if det == "SeededBinarySegmentation":
            return "threshold_", 2 * p * np.sqrt(np.log(n)), T.get_default_threshold(n, p), kw["threshold_scale"]
        if det == "MovingWindow":
            v = T.get_default_threshold(n, p, kw["bandwidth"], kw["level"])
            return "threshold_", v, v, kw["threshold_scale"]
        if det == "CircularBinarySegmentation":
            v = T.get_default_threshold(n, p, kw["max_interval_length"])
            return "threshold_", v, v, kw["threshold_scale"]
        k = build(kw["collective_saving"])
        from skchange.anomaly_scores import to_saving

        k = to_saving(k).get_param_size(p)
        return "collective_penalty_", capa_formula(n, k, 1.0), capa_formula(n, k, 1.0), kw["collective_penalty_scale"]

    attr, formula, published, scale = want_default()
    if not r["tuned"]:
        val = getattr(d, attr, None)
        if val is None or not (_eq(val, scale * formula) and _eq(val, scale * published)):
            ctx.violation(sub, "formula", f"{label}: {attr}={val} != scale x default = "
                          f"{scale} x {formula} (published default {published})", r)
        elif val < 0:
            ctx.violation(sub, "negative", f"{label}: {attr}={val} < 0", r)
        # unchanged by predict on data of another shape (depends on the training data only)
        try:
            d.predict(X2)
            if not _eq(getattr(d, attr), val):
                ctx.violation(sub, "changed-by-predict", f"{label}: {attr} changed from {val} to "
                              f"{getattr(d, attr)} after predict on X2[{X2.shape[0]}x{p}]", r)
        except Exception as ex:
            ctx.stat(f"predict_exceptions[{type(ex).__name__}]")
        # after update(new rows) the training data are the old and the new rows together
        try:
            import pandas as pd

            du = build(spec).fit(pd.DataFrame(X))
            n2 = X2.shape[0]
            total = n
            # chunks continue the stored series; some re-send its last one or two samples (a sliding window that
            # shares its boundary): rows with a label already stored replace them, so the training shape is the
            # number of distinct labels
            overlap = [0, 0, 1, 2][(n + 3 * n2 + p) % 4]
            for j in (1, 2):
                start = total - min(overlap, n2 - 1)
                du.update(pd.DataFrame(X2, index=pd.RangeIndex(start, start + n2)))
                total = start + n2
                _, f_u, pub_u, _ = want_default(total)
                ctx.stat("update_formula_checks")
                if overlap:
                    ctx.stat("update_chunks_overlapping_the_stored_tail")
                if not (_eq(getattr(du, attr), scale * f_u) and _eq(getattr(du, attr), scale * pub_u)):
                    ctx.violation(sub, "formula-after-update", f"{label}: after update #{j} with {n2} rows labelled "
                                  f"{start}..{start + n2 - 1} {attr}={getattr(du, attr)} != scale x default for the "
                                  f"{total} training rows = {scale * f_u}", r)
                    break
        except Exception as ex:
            ctx.violation(sub, "update-exception", f"{label}: update raised {type(ex).__name__}: {ex}", r)
        # proportional to the scale
        skey = [k for k in kw if k in ("penalty_scale", "threshold_scale", "collective_penalty_scale")][0]
        try:
            d2 = build(S(det, **dict(kw, **{skey: 2.5}))).fit(X)
            d1 = build(S(det, **dict(kw, **{skey: 1.0}))).fit(X)
            if not _eq(getattr(d2, attr), 2.5 * getattr(d1, attr)):
                ctx.violation(sub, "not-proportional", f"{label}: {attr}(scale 2.5)={getattr(d2, attr)} "
                              f"!= 2.5 x {attr}(scale 1)={getattr(d1, attr)}", r)
            if det == "CAPA":
                dp2 = build(S(det, **dict(kw, point_penalty_scale=3.0))).fit(X)
                dp1 = build(S(det, **dict(kw, point_penalty_scale=1.0))).fit(X)
                if not _eq(dp2.point_penalty_, 3.0 * dp1.point_penalty_) or dp1.point_penalty_ < 0:
                    ctx.violation(sub, "point-not-proportional", f"{label}: point_penalty_ not "
                                  f"proportional to point_penalty_scale", r)
        except Exception as ex:
            ctx.violation(sub, "fit-exception", f"{label}: refit with another scale raised "
                          f"{type(ex).__name__}: {ex}", r)
        if p >= 2:
            ctx.nt(digest([det, kw, r["X"]]))
    else:
        ctx.stat("tuned_fits")
        level = kw["level"]
        thr = getattr(d, "threshold_", None)
        try:
            if det == "MovingWindow":
                scores = np.asarray(d.transform_scores(X)).ravel()
            else:
                d.predict(X)
                scores = np.asarray(d.scores["score"], dtype=float)
        except Exception as ex:
            ctx.violation(sub, "tuned-exception", f"{label}: reading the training scores raised "
                          f"{type(ex).__name__}: {ex}", r)
            return
        if len(scores) == 0:
            ctx.stat("tuned_no_scores")
            return
        # "the (1-level) quantile": any value between the lower and the higher empirical quantile is
        # one (the statement does not fix the interpolation rule)
        q_lo = np.quantile(scores, 1 - level, method="lower")
        q_hi = np.quantile(scores, 1 - level, method="higher")
        slack = 1e-10 * (abs(q_lo) + abs(q_hi)) + 1e-300  # relative only: scores scale with the unit
        want = np.quantile(scores, 1 - level)
        if thr is None or not (q_lo - slack <= thr <= q_hi + slack):
            ctx.violation(sub, "tuned-quantile", f"{label}: tuned threshold_={thr} is not a (1-level) "
                          f"quantile of the {len(scores)} training scores (between {q_lo} and {q_hi}; "
                          f"linear interpolation {want}; level={level})", r)
        else:
            N = len(scores)
            bound = N - 1 - int(np.floor((N - 1) * (1 - level) - 1e-9))
            if int(np.sum(scores > thr * (1 + 1e-12) + 1e-300)) > bound:
                ctx.violation(sub, "tuned-exceedance", f"{label}: {int(np.sum(scores > thr))} of {N} "
                              f"training scores exceed the tuned threshold (level={level})", r)
        ctx.nt(digest([det, kw, r["X"]]))
    ctx.sample({"case": label, "attr": attr, "tuned": r["tuned"]})


def make_ladder_recipe(rng, tier):
    p = int(rng.integers(1, 3))
    msl = int(rng.integers(1, 4))
    n = int(rng.integers(max(2 * msl, 8), 50 if tier == "quick" else 120))
    kind = ["mean_changes", "weak_changes", "noise", "small_alphabet", "spikes"][int(rng.integers(5))]
    X, _ = gen_data(rng, n, p, kind)
    cost = [S("L2Cost", param=None), S("GaussianVarCost", param=None), S("L1Cost", param=None)][int(rng.integers(3))]
    if cost["cls"] == "GaussianVarCost":
        msl = max(msl, 2)
        X = X + 1e-3 * rng.standard_normal(X.shape)
    base = float(rng.choice([0.001, 0.01, 0.05]))
    scales = [0.0] + [base * 1.7 ** i for i in range(14)]
    if rng.random() < 0.6:
        # a fine grid over the low-penalty range on short noisy integer series with msl >= 2: where
        # competing segmentations are nearly tied and an inexact search becomes non-monotone
        msl = max(msl, 2) + int(rng.integers(0, 4))
        n = int(rng.integers(2 * msl + 6, 60))
        X = rng.integers(-3, 4, size=(n, p)).astype(float) + (
            0.0 if cost["cls"] != "GaussianVarCost" else 1e-3 * rng.standard_normal((n, p)))
        scales = np.round(np.linspace(0.03, 0.45, 36), 4).tolist()
    return {"kind": "ladder", "cost": cost, "msl": msl, "X": X, "scales": scales}


def ladder_case(ctx, r):
    X = np.asarray(r["X"], dtype=float)
    n, p = X.shape
    sub = "pelt-monotone"
    ctx.case()
    ctx.stat("pelt_ladders")
    counts = []
    for s in r["scales"]:
        try:
            d = build(S("PELT", cost=r["cost"], penalty_scale=s, min_segment_length=r["msl"]))
            counts.append(len(d.fit(X).predict(X)))
        except Exception as ex:
            ctx.violation(sub, "exception", f"PELT scale={s}: {type(ex).__name__}: {ex}", r)
            return
    if any(b > a for a, b in zip(counts[:-1], counts[1:])):
        ctx.violation(sub, "more-changepoints-for-larger-penalty",
                      f"PELT({short(r['cost'])}, msl={r['msl']}) n={n} p={p}: changepoint counts "
                      f"{counts} along increasing penalties {[round(s, 4) for s in r['scales']]}", r)
    if len(set(counts)) >= 3:
        ctx.nt(digest(["ladder", r["cost"], r["msl"], r["X"]]))
    ctx.sample({"ladder": short(r["cost"]), "msl": r["msl"], "n": n, "counts": counts})


def exec_case(ctx, r):
    I.drain()
    if r["kind"] == "grid":
        grid_case(ctx, r)
    elif r["kind"] == "detector":
        det_case(ctx, r)
    else:
        ladder_case(ctx, r)
    for h in I.drain():
        if h["contract"] == "K6":
            ctx.violation("contract-K6", "penalty-family-negative", h["message"], r)


def run(ctx):
    I.install()
    grid = GRID if ctx.tier == "quick" else GRID_THOROUGH
    # a shard walks a contiguous block of the grid, so that the same (n, p, k) is asked with all
    # scales one after the other in one process (stale-cache bugs show only then)
    per = -(-len(grid) // ctx.nshards)
    for n, p, k, s in grid[ctx.shard * per:(ctx.shard + 1) * per]:
        exec_case(ctx, {"kind": "grid", "n": n, "p": p, "k": k, "s": s})
    for _ in range(CASES[ctx.tier]):
        exec_case(ctx, make_det_recipe(ctx.rng, ctx.tier))
    for _ in range(CASES[ctx.tier] // 2):
        exec_case(ctx, make_ladder_recipe(ctx.rng, ctx.tier))
    ctx.stat("K6_evaluations", I.COUNTS["K6"])


def replay(ctx, sub, recipe):
    I.install()
    exec_case(ctx, recipe)
