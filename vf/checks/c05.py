"""C05 - dense labels and sparse detections describe the same events for any index."""
import itertools

import numpy as np
import pandas as pd

from vf import instrument as I
from vf.core import digest
from vf.gen import gen_data
from vf.models import convert as CV
from vf.spec import INDEX_KINDS, TIED_INDEX_KINDS, S, build, make_frame, make_index, short

SHARDS = {"quick": 16, "thorough": 16}
WATCHDOG = {"quick": 1200, "thorough": 7200}
ZOO_CASES = {"quick": 110, "thorough": 600}
FLOORS = {
    "quick": {"distinct_nontrivial": 9800, "handbuilt_outputs": 11000, "K2_evaluations": 420,
              "zoo_with_events": 260, "zoo_nondefault_index_with_events": 220},
    "thorough": {"distinct_nontrivial": 30000, "K2_evaluations": 1500},
}
ANCHORS = [
    "skchange.base.base_detector.BaseDetector.transform",
    "skchange.change_detectors.base.ChangeDetector.sparse_to_dense",
    "skchange.change_detectors.base.ChangeDetector.dense_to_sparse",
    "skchange.anomaly_detectors.base.CollectiveAnomalyDetector.sparse_to_dense",
    "skchange.anomaly_detectors.base.CollectiveAnomalyDetector.dense_to_sparse",
    "skchange.anomaly_detectors.base.SubsetCollectiveAnomalyDetector.sparse_to_dense",
    "skchange.anomaly_detectors.base.SubsetCollectiveAnomalyDetector.dense_to_sparse",
]
LEVEL = "exploration"
EXHAUSTIVE_SUBSPACES = {
    "quick": ["all changepoint subsets of 1..n-1 for n<=8", "all sets of pairwise disjoint left-closed "
              "intervals in [0,n] for n<=6", "all (interval set x non-empty column subset) assignments "
              "for n<=4, p<=3 -- each under 5 index types"],
    "thorough": ["all changepoint subsets of 1..n-1 for n<=11", "all sets of pairwise disjoint "
                 "intervals in [0,n] for n<=8", "all (interval set x column subsets) for n<=5, p<=3 "
                 "-- each under 5 index types"],
}
RULE = (
    "(i) exhaustive hand-built valid sparse outputs pushed through the public static methods "
    "sparse_to_dense / dense_to_sparse under RangeIndex(0..n), offset and stepped RangeIndex, "
    "DatetimeIndex and PeriodIndex: dense must have exactly that index and equal the reference "
    "densification (positions only); dense_to_sparse(dense) must reproduce the sparse input; "
    "plus random hand-built outputs with n<=15, p<=7; (ii) detector zoo (p<=5) with non-default indexes / string columns: icontract K2 on transform() "
    "(index identical, labels == reference densification of the predict() observed in the same call) "
    "and dense_to_sparse(transform(X)) == predict(X). Non-trivial = >=1 event and (non-default "
    "index or adjacent events); distinct by (kind, n, events, index type)."
)
ASSUMPTIONS = ["'supported index' = monotonic RangeIndex / DatetimeIndex / PeriodIndex"]


def interval_sets(n):
    """All sets of pairwise disjoint non-empty intervals [l,r) inside [0,n], sorted."""
    out = [[]]

    def rec(start, acc):
        for l in range(start, n):
            for r in range(l + 1, n + 1):
                cur = acc + [(l, r)]
                out.append(cur)
                rec(r, cur)

    rec(0, [])
    return out


def sparse_change(cpts):
    return pd.DataFrame({"ilocs": pd.Series(list(cpts), dtype="int64")})


def sparse_anomaly(iv):
    return pd.DataFrame({
        "ilocs": pd.IntervalIndex.from_tuples([(int(a), int(b)) for a, b in iv], closed="left",
                                              dtype="interval[int64, left]"),
        "labels": pd.RangeIndex(1, len(iv) + 1)})


def sparse_subset(iv, cols):
    y = sparse_anomaly(iv)
    y["icolumns"] = [np.array(c, dtype="int64") for c in cols]
    return y


def handbuilt_case(ctx, r):
    from skchange.anomaly_detectors.base import (CollectiveAnomalyDetector,
                                                 SubsetCollectiveAnomalyDetector)
    from skchange.change_detectors.base import ChangeDetector

    kind, n, ev, ik = r["kind"], r["n"], r["events"], r["index"]
    index = make_index(ik, n)
    p = r.get("p", 1)
    from vf.spec import column_labels

    columns = pd.RangeIndex(p) if r.get("columns", "default") == "default" else pd.Index(
        column_labels(r["columns"], p))
    ctx.case()
    ctx.stat("handbuilt_outputs")
    ctx.stat(f"handbuilt[{kind}]")
    sub = f"convert-{kind}"
    if kind == "change":
        cls, y = ChangeDetector, sparse_change(ev)
        adjacent = any(b - a == 1 for a, b in zip(ev[:-1], ev[1:]))
    elif kind == "anomaly":
        cls, y = CollectiveAnomalyDetector, sparse_anomaly(ev)
        adjacent = any(a[1] == b[0] for a, b in zip(ev[:-1], ev[1:]))
    else:
        cls, y = SubsetCollectiveAnomalyDetector, sparse_subset(ev, r["cols"])
        adjacent = any(a[1] == b[0] for a, b in zip(ev[:-1], ev[1:]))
    label = f"{cls.__name__} n={n} events={ev}{' cols=' + str(r['cols']) if kind == 'subset' else ''} index={ik}"
    ref = CV.reference_dense(y, n, p)
    try:
        dense = cls.sparse_to_dense(y.copy(deep=True), index, columns)
    except Exception as ex:
        ctx.violation(sub, "sparse_to_dense-exception", f"{label}: {type(ex).__name__}: {ex}", r)
        return
    if not isinstance(dense, pd.DataFrame) or not dense.index.equals(index) \
            or type(dense.index) is not type(index):
        ctx.violation(sub, "dense-index", f"{label}: dense index {getattr(dense, 'index', None)!r} "
                      f"is not the given index", r)
        return
    got = dense.to_numpy()
    if got.shape != ref.shape or not np.array_equal(got, ref):
        ctx.violation(sub, "dense-labels", f"{label}: dense labels {got.T.tolist()} != reference "
                      f"{ref.T.tolist()}", r)
        return
    if not all(pd.api.types.is_integer_dtype(t) for t in dense.dtypes):
        ctx.violation(sub, "dense-dtype", f"{label}: dense dtypes {dense.dtypes.tolist()}", r)
    want_cols = ["labels"] if kind != "subset" else [f"labels_{c}" for c in columns]
    if kind == "subset" and dense.shape[1] != p:
        ctx.violation(sub, "dense-columns", f"{label}: dense output has {dense.shape[1]} columns for {p} "
                      f"variables (column labels {list(columns)})", r)
        return
    if list(dense.columns) != want_cols:
        ctx.violation(sub, "dense-columns", f"{label}: dense columns {list(dense.columns)} != {want_cols}", r)
    try:
        back = cls.dense_to_sparse(dense.copy(deep=True))
    except Exception as ex:
        ctx.violation(sub, "dense_to_sparse-exception", f"{label}: {type(ex).__name__}: {ex}", r)
        return
    try:
        same = CV.same_sparse(back, y)
    except Exception as ex:
        same = False
    if not same:
        ctx.violation(sub, "round-trip", f"{label}: dense_to_sparse(dense) = "
                      f"{back.to_dict('list') if hasattr(back, 'to_dict') else back} != the sparse input", r)
        return
    if len(ev) >= 1 and (ik != "range0" or adjacent):
        ctx.nt(digest([kind, n, ev, r.get("cols"), ik]))


def plan_handbuilt(tier):
    jobs = []
    nc = 8 if tier == "quick" else 11
    na = 6 if tier == "quick" else 8
    ns = 4 if tier == "quick" else 5
    for n in range(1, nc + 1):
        for k in range(0, n):
            for c in itertools.combinations(range(1, n), k):
                jobs.append({"kind": "change", "n": n, "events": list(c)})
    for n in range(1, na + 1):
        for iv in interval_sets(n):
            jobs.append({"kind": "anomaly", "n": n, "events": [list(x) for x in iv]})
    for n in range(1, ns + 1):
        for p in range(1, 4):
            subsets = [list(c) for k in range(1, p + 1) for c in itertools.combinations(range(p), k)]
            for iv in interval_sets(n):
                if len(iv) > 3:
                    continue
                for cols in itertools.product(subsets, repeat=len(iv)):
                    jobs.append({"kind": "subset", "n": n, "p": p, "events": [list(x) for x in iv],
                                 "cols": [list(c) for c in cols]})
    return jobs


# ------------------------------------------------------------------- detector zoo
def zoo_recipe(rng, tier):
    from vf.zoo import random_detector

    spec, nmin, p = random_detector(rng, dense_events=True, pmax=5)
    n = int(rng.integers(nmin, nmin + (40 if tier == "quick" else 90)))
    kind = ["mean_changes", "spikes", "collective", "small_alphabet", "piecewise_const",
            "noise"][int(rng.integers(6))]
    X, _ = gen_data(rng, n, p, kind)
    if spec["cls"] == "MVCAPA" and rng.random() < 0.5:
        # weak anomalies shared by all columns under a collective penalty with a light constant term:
        # every column's saving can stay below the per-column penalty of the column inference while the
        # anomaly is still detected (the dense output must show it all the same)
        spec["kw"]["collective_penalty"] = {"fn": ["pen_zero", "pen_zero_alpha_equal_betas", "pen_const_only"][
            int(rng.integers(3))]}
        spec["kw"]["collective_penalty_scale"] = float([0.05, 0.2, 0.5, 1.0][int(rng.integers(4))])
        X = rng.standard_normal((n, p))
        a = int(rng.integers(0, max(1, n - 4)))
        X[a:a + int(rng.integers(3, max(4, n // 2)))] += float(rng.uniform(0.4, 1.2)) * rng.choice([-1, 1])
    return {"kind": "zoo", "det": spec, "X": X, "index": (INDEX_KINDS + TIED_INDEX_KINDS)[int(rng.integers(7))],
            "variant": [None, None, "edited_between", "output_edited"][int(rng.integers(4))],
            "vseed": int(rng.integers(2 ** 31)),
            "columns": ["default", "strings", "duplicate", "printsame"][int(rng.integers(4))]}


def zoo_case(ctx, r):
    X = np.asarray(r["X"], dtype=float)
    n, p = X.shape
    df = make_frame(X, r["index"], r["columns"])
    if p == 1 and r["det"]["cls"] == "StatThresholdAnomaliser":
        df = df.iloc[:, 0]
    ctx.case()
    ctx.stat(f"zoo[{r['det']['cls']}]")
    label = f"{short(r['det'])} X[{n}x{p}] index={r['index']} columns={r['columns']}"
    sub = "zoo-transform"
    I.drain()
    try:
        det = build(r["det"]).fit(df)
        variant = r.get("variant")
        ctx.stat(f"zoo_variant[{variant}]")
        if variant in ("edited_between", "output_edited") and isinstance(df, pd.DataFrame):
            # predict(X) and transform(X) must describe the same events also when the caller does
            # something in between: edits X in place (transform and a new predict see the new values),
            # or changes the frame that predict returned (it is the caller's own copy)
            y0 = det.predict(df)
            if variant == "edited_between":
                hr = np.random.default_rng(r.get("vseed", 0))
                a = int(hr.integers(0, max(1, n - 2)))
                df.iloc[a:a + max(2, n // 3), :] += float(hr.choice([-6.0, 6.0]))
                dense = det.transform(df)
                y = det.predict(df)
            else:
                if len(y0):
                    y0.drop(index=y0.index[0], inplace=True)
                    if "labels" in y0.columns:
                        y0["labels"] = 7
                dense = det.transform(df)
                y = det.predict(df)
        else:
            y = det.predict(df)
            dense = det.transform(df)
    except Exception as ex:
        # running at all is C14's business; here only conversions are judged
        ctx.stat(f"zoo_exceptions[{type(ex).__name__}]")
        I.drain()
        return
    for h in I.drain():
        if h["contract"] == "K2":
            ctx.violation("contract-K2", "transform-vs-predict", f"{label}: {h['message']}", r)
    try:
        back = type(det).dense_to_sparse(dense)
        if not CV.same_sparse(back, y):
            ctx.violation(sub, "round-trip", f"{label}: dense_to_sparse(transform(X)) = "
                          f"{back.to_dict('list')} != predict(X) = {y.to_dict('list')}", r)
    except Exception as ex:
        ctx.violation(sub, "dense_to_sparse-exception", f"{label}: {type(ex).__name__}: {ex}", r)
    if len(y) >= 1:
        ctx.stat("zoo_with_events")
        kind, parts = CV.sparse_parts(y)
        iv = parts[0]
        adjacent = kind != "change" and any(a[1] == b[0] for a, b in zip(iv[:-1], iv[1:]))
        if adjacent:
            ctx.stat("zoo_adjacent_anomalies")
        if r["index"] != "range0":
            ctx.stat("zoo_nondefault_index_with_events")
        if r["index"] != "range0" or adjacent:
            ctx.nt(digest(["zoo", r["det"], r["X"], r["index"]]))
    ctx.sample({"case": label, "predict": y.astype(str).to_dict("list")}, cap=3)


def exec_case(ctx, r):
    if r["kind"] == "zoo":
        zoo_case(ctx, r)
    else:
        handbuilt_case(ctx, r)


def run(ctx):
    I.install()
    jobs = plan_handbuilt(ctx.tier)
    for i in range(ctx.shard, len(jobs), ctx.nshards):
        for ik in INDEX_KINDS:
            r = dict(jobs[i], index=ik)
            if r["kind"] == "subset":
                r["columns"] = ["default", "strings", "duplicate", "printsame"][(i + len(ik)) % 4]
            exec_case(ctx, r)
    ctx.sample({"handbuilt_example": jobs[min(len(jobs) - 1, 37 + ctx.shard)]})
    # random (non-exhaustive) hand-built outputs beyond the enumerated bounds: wider p, longer n
    for _ in range(150 if ctx.tier == "quick" else 2000):
        rng = ctx.rng
        n = int(rng.integers(6, 16))
        p = int(rng.integers(2, 8))
        iv, t = [], int(rng.integers(0, 3))
        while t < n and len(iv) < 5:
            e = min(n, t + int(rng.integers(1, 5)))
            iv.append([t, e])
            t = e + int(rng.choice([0, 0, 1, 2]))
        cols = [sorted(int(c) for c in rng.choice(p, size=int(rng.integers(1, p + 1)), replace=False))
                for _ in iv]
        kind = ["subset", "subset", "anomaly", "change"][int(rng.integers(4))]
        r = {"kind": kind, "n": n, "p": p if kind == "subset" else 1, "index": INDEX_KINDS[int(rng.integers(5))],
             "columns": ["default", "strings", "duplicate", "printsame"][int(rng.integers(4))] if p <= 6
             else "default", "random": True}
        if kind == "subset":
            r.update(events=iv, cols=cols)
        elif kind == "anomaly":
            r.update(events=iv)
        else:
            r.update(events=sorted({int(c) for c in rng.integers(1, n, size=int(rng.integers(0, 6)))}))
        ctx.stat("handbuilt_random")
        exec_case(ctx, r)
    for _ in range(ZOO_CASES[ctx.tier]):
        exec_case(ctx, zoo_recipe(ctx.rng, ctx.tier))
    ctx.stat("K2_evaluations", I.COUNTS["K2"])


def replay(ctx, sub, recipe):
    I.install()
    exec_case(ctx, recipe)
