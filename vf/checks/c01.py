"""C01 - cost values equal their definition on every admissible interval."""
import numpy as np

from vf.core import digest
from vf.gen import ALL_KINDS, gen_data
from vf.models import costs as M
from vf.spec import ND, S, build, short

SHARDS = {"quick": 16, "thorough": 16}
WATCHDOG = {"quick": 900, "thorough": 7200}
CASES = {"quick": 200, "thorough": 900}  # per shard
FLOORS = {
    "quick": {"regular_batches_with_2+_rows": 4118, "distinct_nontrivial": 1700, "rows_checked": 260000, "cases[GaussianCovCost]": 420,
              "cases[int64 data]": 100, "K5_rows_audited": 17000},
    "thorough": {"distinct_nontrivial": 2000, "rows_checked": 500000},
}
ANCHORS = [
    "skchange.costs.l2_cost.l2_cost_optim",
    "skchange.costs.l2_cost.l2_cost_fixed",
    "skchange.costs.gaussian_var_cost.gaussian_var_cost_optim",
    "skchange.costs.gaussian_var_cost.gaussian_var_cost_fixed",
    "skchange.costs.gaussian_var_cost.var_from_sums",
    "skchange.costs.gaussian_cov_cost.gaussian_cov_cost_optim",
    "skchange.costs.gaussian_cov_cost.gaussian_cov_cost_fixed",
    "skchange.utils.numba.stats.col_cumsum",
    "skchange.utils.numba.stats.log_det_covariance",
    "skchange.costs.utils.check_mean",
    "skchange.costs.utils.check_var",
    "skchange.costs.utils.check_cov",
    "skchange.costs.base.BaseCost._evaluate",
]
LEVEL = "exploration"
RULE = (
    "case = (cost kind, parameter mode, seeded data matrix of a catalogue kind, n<=40 quick / "
    "<=300 thorough, p<=4/6); every admissible [s,e) for n<=25 else a random sample; each row of "
    "one public evaluate() call compared with an interval-valued direct recomputation from "
    "X[s:e] (DESIGN s2), plus shape, batch/order independence and documented-error checks. "
    "Plus detector-shaped cut distributions: zoo detectors with built-in scorers run under contract K5, "
    "which audits a 25% sample of the evaluate() batches the detectors themselves request against the "
    "same interval models. Non-trivial = case with a strictly interior interval checked; distinct by "
    "recipe digest."
)
ASSUMPTIONS = [
    "reference values computed in extended precision from the slice; tolerance = prefix-sum "
    "rounding bound 8*n*eps*sum|x| (sum x^2) propagated through the definition",
    "multivariate cost: slices with condition number > 1e10 may either raise the documented "
    "RuntimeError or return a finite value",
]


def _param(rng, kind, p):
    """(spec, plain) for a random parameter mode."""
    r = rng.random()
    if r < 0.34:
        return None, None, "optim"
    per_col = p > 1 and rng.random() < 0.6
    mean = rng.normal(0, 2, size=p if per_col else 1).round(3)
    if rng.random() < 0.2:
        # the same kinds of parameters given with INTEGER type (python ints, int64 arrays): valid
        # fixed parameters like any other; integer arithmetic on them must not leak into the value
        imean = rng.integers(-3, 4, size=p if per_col else 1)
        ivar = rng.integers(1, 8, size=p if per_col else 1)
        im = ND(imean.astype(np.int64)) if (per_col or rng.random() < 0.5) else int(imean[0])
        iv = ND(ivar.astype(np.int64)) if (per_col or rng.random() < 0.5) else int(ivar[0])
        if kind == "L2Cost":
            return im, imean.astype(float), "fixed-int"
        if kind == "GaussianVarCost":
            return {"tuple": [im, iv]}, (imean.astype(float), ivar.astype(float)), "fixed-int"
        if rng.random() < 0.5:
            c = int(ivar[0])
            return {"tuple": [im, c]}, (imean.astype(float), float(c) * np.eye(p)), "fixed-int"
        d = rng.integers(1, 8, size=p)
        return {"tuple": [im, ND(np.diag(d).astype(np.int64))]}, (imean.astype(float), np.diag(d).astype(float)), "fixed-int"
    if rng.random() < 0.12:
        # single-precision and 0-d forms of the same kinds of parameters: a np.float32 scalar, a
        # float32 array, a 0-d float64 array (all "a number" or "an array-like" for the documentation);
        # the value is the float64 value of what was given
        m32 = mean.astype(np.float32)
        v32 = np.exp(rng.uniform(np.log(0.1), np.log(10), size=len(mean))).astype(np.float32)
        form = int(rng.integers(3))

        def give(a):
            if form == 0 and len(a) == 1:
                return {"np": "float32", "v": float(a[0])}
            if form == 1 and len(a) == 1:
                return {"nd": float(a[0]), "dtype": "float64"}  # 0-d array
            return ND(a, dtype="float32")
        if kind == "L2Cost":
            return give(m32), m32.astype(float), "fixed-np32"
        if kind == "GaussianVarCost":
            return {"tuple": [give(m32), give(v32)]}, (m32.astype(float), v32.astype(float)), "fixed-np32"
        d = np.exp(rng.uniform(np.log(0.1), np.log(10), size=p)).astype(np.float32)
        return {"tuple": [give(m32), ND(np.diag(d), dtype="float32")]}, (m32.astype(float), np.diag(d).astype(float)), "fixed-np32"
    if kind == "L2Cost":
        if per_col:
            return ND(mean), mean, "fixed-percol"
        if rng.random() < 0.5:
            return float(mean[0]), float(mean[0]), "fixed-scalar"
        return ND(mean), mean, "fixed-array1"
    if kind == "GaussianVarCost":
        var_pc = p > 1 and rng.random() < 0.6
        var = np.exp(rng.uniform(np.log(1e-3), np.log(1e3), size=p if var_pc else 1)).round(6)
        ms = ND(mean) if (per_col or rng.random() < 0.5) else float(mean[0])
        vs = ND(var) if (var_pc or rng.random() < 0.5) else float(var[0])
        return {"tuple": [ms, vs]}, (mean, var), "fixed-percol" if (per_col or var_pc) else "fixed-scalar"
    if kind == "GaussianCovCost":
        ms = ND(mean) if (per_col or rng.random() < 0.5) else float(mean[0])
        if rng.random() < 0.3:
            c = float(np.exp(rng.uniform(np.log(1e-2), np.log(1e2))).round(6))
            return {"tuple": [ms, c]}, (mean, c * np.eye(p)), "fixed-scalarcov"
        A = rng.standard_normal((p, p))
        Q, _ = np.linalg.qr(A)
        lam = np.exp(rng.uniform(np.log(1e-2), np.log(1e2), size=p))
        cov = (Q * lam) @ Q.T
        cov = (cov + cov.T) / 2
        return {"tuple": [ms, ND(cov)]}, (mean, cov), "fixed-fullcov"
    raise KeyError(kind)


def make_recipe(rng, tier):
    kind = ["L2Cost", "GaussianVarCost", "GaussianCovCost"][int(rng.integers(3))]
    nmax = 40 if tier == "quick" else (300 if rng.random() < 0.15 else 80)
    pmax = 4 if tier == "quick" else 6
    p = int(rng.integers(1, pmax + 1))
    ms = M.min_size(kind, p)
    n = int(rng.integers(1, nmax + 1))
    if rng.random() < 0.85:
        n = max(n, ms)  # mostly admissible lengths; n < min size has no admissible interval
    dk = ALL_KINDS[int(rng.integers(len(ALL_KINDS)))]
    X, meta = gen_data(rng, n, p, dk)
    pspec, _, mode = _param(rng, kind, p)
    int_dtype = bool(dk in ("small_alphabet", "constant", "piecewise_const") and rng.random() < 0.5)
    return {
        "int_dtype": int_dtype,
        "kind": kind, "param": pspec, "mode": mode, "data_kind": dk, "X": X,
        "sub_seed": int(rng.integers(2 ** 31)),
    }


def _plain_param(kind, pspec):
    if pspec is None:
        return None
    b = build(pspec)
    return b


def exec_case(ctx, r):
    sub = "cost-definition"
    X = np.asarray(r["X"], dtype=float)
    if X.ndim == 1:
        X = X.reshape(-1, 1)
    n, p = X.shape
    kind = r["kind"]
    rng = np.random.default_rng(r["sub_seed"])
    ctx.case()
    ctx.stat(f"cases[{kind}]")
    ctx.stat(f"mode[{r['mode']}]")
    ctx.stat(f"data[{r['data_kind']}]")
    cost = build(S(kind, param=r["param"]))
    param = _plain_param(kind, r["param"])
    if r.get("int_dtype"):
        ctx.stat("cases[int64 data]")
    try:
        cost.fit(X.astype(np.int64) if r.get("int_dtype") else X)
    except Exception as ex:  # valid parameter + finite data must fit
        ctx.violation(sub, "fit-exception", f"fit raised {type(ex).__name__}: {ex}", r)
        return
    ms = M.min_size(kind, p)
    if cost.min_size != ms:
        ctx.violation(sub, "min-size", f"min_size={cost.min_size}, documented {ms}", r)
    pairs = [(s, e) for s in range(n) for e in range(s + ms, n + 1)]
    if not pairs:
        ctx.stat("cases_without_admissible_interval")
        return
    if n > 25:
        idx = rng.choice(len(pairs), size=min(len(pairs), 400), replace=False)
        pairs = [pairs[i] for i in sorted(idx)] + [(0, n), (0, ms), (n - ms, n)]
    tol = M.DataTol(X)
    ncols = 1 if kind == "GaussianCovCost" else p

    ok_pairs, ok_iv, special = [], [], []
    for (s, e) in pairs:
        lo, hi, status = M.cost_interval(kind, param, X, tol, s, e)
        if status == "ok":
            ok_pairs.append((s, e))
            ok_iv.append((lo, hi))
        else:
            special.append((s, e, status))

    # -- singular slices of the multivariate cost, one by one ------------------
    for (s, e, status) in special[:60]:
        ctx.stat(f"slices[{status}]")
        try:
            v = cost.evaluate(np.array([[s, e]]))
            if status == "must_raise":
                ctx.violation(sub, "missing-runtimeerror",
                              f"[{s},{e}) has an exactly constant column but evaluate returned {v}", r)
            elif not np.all(np.isfinite(v)):
                ctx.violation(sub, "nonfinite", f"[{s},{e}) returned {v}", r)
        except RuntimeError:
            ctx.stat("documented_runtimeerror_seen")
        except Exception as ex:
            ctx.violation(sub, "exception", f"[{s},{e}) raised {type(ex).__name__}: {ex}", r)

    if not ok_pairs:
        return
    cuts = np.array(ok_pairs, dtype=np.int64)
    try:
        vals = cost.evaluate(cuts)
    except Exception as ex:
        ctx.violation(sub, "exception",
                      f"evaluate raised {type(ex).__name__}: {ex} on admissible intervals", r)
        return
    if not isinstance(vals, np.ndarray) or vals.shape != (len(cuts), ncols):
        ctx.violation(sub, "shape", f"shape {getattr(vals, 'shape', None)} != {(len(cuts), ncols)}", r)
        return
    interior = False
    for i, ((s, e), (lo, hi)) in enumerate(zip(ok_pairs, ok_iv)):
        row = vals[i]
        ctx.stat("rows_checked")
        if s > 0 and e < n:
            interior = True
            ctx.stat("rows_interior")
        if not (np.all(np.isfinite(row)) and np.all(row >= lo) and np.all(row <= hi)):
            ctx.violation(
                sub, "value",
                f"{short(S(kind, param=r['param']))} [{s},{e}) n={n} p={p}: got {row.tolist()} "
                f"outside [{np.asarray(lo).tolist()}, {np.asarray(hi).tolist()}]", r,
                {"s": s, "e": e})
            break

    # -- batch / order / history independence -----------------------------------
    def same(a, b):
        return np.all(np.abs(a - b) <= 16 * M.EPS * (np.abs(a) + np.abs(b)) + 1e-300)

    k = len(cuts)
    lens = cuts[:, 1] - cuts[:, 0]
    for trial in range(8):
        if trial == 0:
            sel = rng.permutation(k)
        elif trial == 1:
            sel = rng.integers(0, k, size=int(rng.integers(1, min(k, 7) + 1)))
        elif trial == 2:
            sel = np.array([int(rng.integers(k))])
        elif trial == 3:
            sel = np.sort(rng.choice(k, size=max(1, k // 2), replace=False))[::-1]
        else:
            # regular batches, the shapes a detector (or a "vectorised" fast path) would produce: all rows
            # of one length (sliding window), rows sharing their start / their end, a contiguous tiling
            piv = cuts[int(rng.integers(k))]
            if trial == 4:
                sel = np.flatnonzero(lens == piv[1] - piv[0])
            elif trial == 5:
                sel = np.flatnonzero(cuts[:, 0] == piv[0])
            elif trial == 6:
                sel = np.flatnonzero(cuts[:, 1] == piv[1])
            else:
                L = int(piv[1] - piv[0])
                sel = np.flatnonzero((lens == L) & ((cuts[:, 0] - piv[0]) % L == 0))
            ctx.stat("regular_batches")
            if len(sel) >= 2:
                ctx.stat("regular_batches_with_2+_rows")
        arg = cuts[sel]
        if trial == 2 and rng.random() < 0.5:
            arg = arg[0]  # a 1-D cut is one row
        try:
            v2 = cost.evaluate(arg)
        except Exception as ex:
            ctx.violation(sub, "batch-dependence",
                          f"sub-batch raised {type(ex).__name__}: {ex}", r)
            break
        ctx.stat("batch_rows_compared", len(sel))
        if v2.shape != (len(sel), ncols) or not same(v2, vals[sel]):
            ctx.violation(sub, "batch-dependence",
                          f"rows differ between batches (trial {trial})", r)
            break
    # -- the caller edits the SAME data object in place and fits again: the values must follow ----
    if n >= 4 and not r.get("int_dtype") and ok_pairs:
        try:
            Xobj = X.copy()
            c2 = build(S(kind, param=r["param"])).fit(Xobj)
            c2.evaluate(cuts[:1])
            a = int(rng.integers(0, n - 1))
            Xobj[a:a + max(1, n // 4)] += 3.25  # in-place edit by the caller
            c2.fit(Xobj)
            tol2 = M.DataTol(Xobj)
            sel = rng.choice(len(ok_pairs), size=min(len(ok_pairs), 12), replace=False)
            v3 = c2.evaluate(cuts[sel])
            ctx.stat("refit_same_object_rows", len(sel))
            for j, i in enumerate(sel):
                s_, e_ = ok_pairs[int(i)]
                lo, hi, status = M.cost_interval(kind, param, Xobj, tol2, s_, e_)
                if status != "ok":
                    continue
                if not (np.all(v3[j] >= lo) and np.all(v3[j] <= hi)):
                    ctx.violation(sub, "stale-fit", f"{short(S(kind, param=r['param']))} [{s_},{e_}) after the "
                                  f"caller edited X in place and fitted again: got {v3[j].tolist()} outside "
                                  f"[{np.asarray(lo).tolist()}, {np.asarray(hi).tolist()}] (values of the "
                                  f"earlier contents?)", r)
                    break
        except RuntimeError:
            pass
        except Exception as ex:
            ctx.violation(sub, "exception", f"refit on the edited object raised {type(ex).__name__}: {ex}", r)
    # -- two live objects of the same class fitted to different data and used alternately --------
    # (a value must come from the object's own X[s:e]: nothing may be shared between instances)
    if ok_pairs:
        try:
            other = build(S(kind, param=r["param"]))
            Xo = X[::-1].copy() * 1.5 + 0.25
            other.fit(Xo)
            cost.fit(X)  # `cost` was fitted first, `other` second; now use them in turn
            tol_o = M.DataTol(Xo)
            sel = rng.choice(len(ok_pairs), size=min(len(ok_pairs), 8), replace=False)
            for i in sel:
                s_, e_ = ok_pairs[int(i)]
                one = np.array([[s_, e_]], dtype=np.int64)
                va = cost.evaluate(one)[0]
                vb = other.evaluate(one)[0]
                va2 = cost.evaluate(one)[0]
                ctx.stat("interleaved_rows")
                for who, v, XX, tt in (("first", va, X, tol), ("second", vb, Xo, tol_o), ("first again", va2, X, tol)):
                    lo, hi, status = M.cost_interval(kind, param, XX, tt, s_, e_)
                    if status == "ok" and not (np.all(v >= lo) and np.all(v <= hi)):
                        ctx.violation(sub, "shared-between-instances", f"{short(S(kind, param=r['param']))} "
                                      f"[{s_},{e_}): two objects fitted to different data and used in turn: the "
                                      f"{who} object returned {np.asarray(v).tolist()} outside "
                                      f"[{np.asarray(lo).tolist()}, {np.asarray(hi).tolist()}]", r)
                        raise StopIteration
        except StopIteration:
            pass
        except RuntimeError:
            pass
        except Exception as ex:
            ctx.violation(sub, "exception", f"interleaved use of two objects raised {type(ex).__name__}: {ex}", r)
    if interior or p > 1:
        ctx.nt(digest([r["kind"], r["param"], r["X"]]))
    ctx.sample({"cost": short(S(kind, param=r["param"])), "n": n, "p": p,
                "data_kind": r["data_kind"], "intervals_checked": len(ok_pairs),
                "first_rows": X[:3].tolist()})


def detector_audit_case(ctx, r):
    """Detector-shaped cut distributions: run a zoo detector (built-in scorers) and let contract K5
    audit a sample of the evaluate() rows the detector itself requests."""
    from vf import instrument as I
    from vf.core import CaseTimeout, time_limit

    X = np.asarray(r["X"], dtype=float)
    ctx.case()
    ctx.stat("detector_audit_cases")
    I.drain()
    I.AUDIT["rate"] = 0.25
    before = I.COUNTS["K5"]
    try:
        with time_limit(60):
            det = build(r["det"]).fit(X)
            det.predict(X)
    except (CaseTimeout, Exception):
        ctx.stat("detector_audit_exceptions")
    finally:
        I.AUDIT["rate"] = 0.0
    ctx.stat("K5_rows_audited", I.COUNTS["K5"] - before)
    for h in I.drain():
        if h["contract"] == "K5":
            ctx.violation("contract-K5", "value", f"{short(r['det'])} X[{X.shape[0]}x{X.shape[1]}]: "
                          f"{h['message']}", r)
    if I.COUNTS["K5"] - before > 0:
        ctx.nt(digest(["audit", r["det"], r["X"]]))


def make_audit_recipe(rng, tier):
    from vf.zoo import random_detector

    for _ in range(20):
        spec, nmin, p = random_detector(rng, dense_events=True, pmax=3)
        txt = short(spec)
        if not any(u in txt for u in ("Hash", "Closure", "L1Cost", "ModeCost", "Scripted")):
            break
    hi = 40 if tier == "quick" else 120
    if spec["cls"] == "CircularBinarySegmentation":
        hi = 20
    n = int(rng.integers(nmin, nmin + hi))
    X, _ = gen_data(rng, n, p, ["noise", "mean_changes", "collective", "spikes", "offset", "var_changes"][
        int(rng.integers(6))])
    return {"audit": True, "det": spec, "X": X}


def run(ctx):
    for _ in range(CASES[ctx.tier]):
        exec_case(ctx, make_recipe(ctx.rng, ctx.tier))
    for _ in range(CASES[ctx.tier] // 2):
        detector_audit_case(ctx, make_audit_recipe(ctx.rng, ctx.tier))


def replay(ctx, sub, recipe):
    if recipe.get("audit"):
        detector_audit_case(ctx, recipe)
    else:
        exec_case(ctx, recipe)
