"""C18 - data generators are reproducible and place segments exactly where requested."""
import numpy as np
import pandas as pd

from vf.core import digest

SHARDS = {"quick": 16, "thorough": 16}
WATCHDOG = {"quick": 900, "thorough": 3600}
CASES = {"quick": 1000, "thorough": 8000}
FLOORS = {
    "quick": {"distinct_nontrivial": 5500, "segments_checked": 9800, "invalid_args_checked": 1200,
              "outlier_cases": 1200, "outlier_frames[concat]": 160, "outlier_frames[assigned]": 160,
              "cases[n=1]": 320, "cases[seed=0]": 250},
    "thorough": {"distinct_nontrivial": 40000, "segments_checked": 100000, "outlier_frames[concat]": 800},
}
ANCHORS = [
    "skchange.datasets.generate.generate_changing_data",
    "skchange.datasets.generate.generate_anomalous_data",
    "skchange.datasets.generate.generate_alternating_data",
    "skchange.datasets.generate.add_linspace_outliers",
]
LEVEL = "exploration"
RULE = (
    "case = one call of generate_changing_data / generate_anomalous_data / generate_alternating_data "
    "/ add_linspace_outliers with seeded random n in 1..60 (200 thorough), p in 1..5, integer seed, "
    "position lists incl. boundary and adjacent positions, scalar or per-column means/variances. "
    "Oracle: shape, 0..n-1 index, same-seed reproducibility, and out == mean + sqrt(var)*z on every "
    "requested segment and out == z elsewhere, where z is the same generator called with the same "
    "seed and no effect (mean 0, variance 1); outliers: difference to the input is outlier_size on "
    "exactly the rows linspace(0,n-1,k) and 0 elsewhere; inconsistent arguments must raise "
    "ValueError. Non-trivial = valid call with >=1 effect segment and p>1 or >=2 segments, or an "
    "invalid-argument call; distinct by recipe digest."
)
ASSUMPTIONS = ["random_state objects are not 'identical seeds': only integer seeds are used",
               "changepoints are strictly increasing positions in 1..n-1 in valid calls"]


def _mv(rng, k, p, what):
    """k means or variances: scalar / list of scalars / list of per-column arrays."""
    def one(percol):
        if what == "mean":
            v = rng.normal(0, 5, size=p if percol else 1).round(3)
            if rng.random() < 0.3:
                v = v * 0.0  # a pure variance change: the mean stays exactly 0
        else:
            v = np.exp(rng.uniform(-3, 3, size=p if percol else 1)).round(4)
        return v.tolist() if percol else float(v[0])
    style = int(rng.integers(3))
    if style == 0:
        return one(False)  # one scalar for all segments
    if style == 1:
        return [one(False) for _ in range(k)]
    return [one(True) for _ in range(k)]


def _expand(v, k, p):
    if not isinstance(v, list):
        v = [v]
    v = [np.broadcast_to(np.asarray(x, dtype=float).reshape(-1), (p,)) for x in v]
    if len(v) == 1:
        v = v * k
    return v


def make_recipe(rng, tier):
    gen = ["changing", "anomalous", "alternating", "outliers", "invalid"][int(rng.integers(5))]
    nmax = 60 if tier == "quick" else 200
    n = int(rng.integers(1, nmax + 1))
    if rng.random() < 0.05:
        n = 1
    p = int(rng.integers(1, 6))
    seed = int(rng.integers(0, 10 ** 6))
    if rng.random() < 0.2:
        seed = int(rng.choice([0, 1, 2, 2 ** 31 - 1, 2 ** 32 - 1]))  # boundary seeds (0 is falsy)
    r = {"gen": gen, "n": n, "p": p, "seed": seed}
    if gen == "changing":
        k = int(rng.integers(0, min(5, n)))
        cpts = sorted(int(c) for c in rng.choice(np.arange(1, n), size=k, replace=False)) if k else []
        if k and rng.random() < 0.3:
            cpts = sorted(set(cpts) | {1, n - 1})
        if cpts and rng.random() < 0.25:
            # zero-length segments: a repeated position and / or a changepoint at 0 (both accepted by
            # the validation: positions only have to lie in 0..n-1); the segments after them must
            # still get their own parameters
            extra = [cpts[int(rng.integers(len(cpts)))]] * int(rng.integers(1, 3))
            if rng.random() < 0.4:
                extra.append(0)
            cpts = sorted(cpts + extra)
            r["repeated"] = True
        r.update(changepoints=cpts, means=_mv(rng, len(cpts) + 1, p, "mean"),
                 variances=_mv(rng, len(cpts) + 1, p, "var"))
        # p is defined by the first mean: make it explicit
        r["means"] = [m.tolist() for m in _expand(r["means"], len(cpts) + 1, p)]
    elif gen == "anomalous":
        k = int(rng.integers(1, 4))
        anoms, t = [], 0
        for _ in range(k):
            if t >= n:
                break
            s = t if rng.random() < 0.4 else int(rng.integers(t, n))
            e = int(rng.integers(s + 1, n + 1))
            if rng.random() < 0.2:
                e = n
            anoms.append([s, e])
            t = e
        r.update(anomalies=anoms, means=_mv(rng, len(anoms), p, "mean"),
                 variances=_mv(rng, len(anoms), p, "var"))
        r["means"] = [m.tolist() for m in _expand(r["means"], len(anoms), p)]
        if len(anoms) >= 2 and rng.random() < 0.5:
            # the list order is the caller's business: pass the anomalies non-chronologically,
            # each keeping its own mean and variance
            perm = rng.permutation(len(anoms)).tolist()
            r["anomalies"] = [anoms[i] for i in perm]
            r["means"] = [r["means"][i] for i in perm]
            if isinstance(r["variances"], list):
                r["variances"] = [r["variances"][i] for i in perm]
            r["shuffled"] = True
    elif gen == "alternating":
        r.update(n_segments=int(rng.integers(1, 6)), segment_length=int(rng.integers(1, 15)),
                 mean=0.0 if rng.random() < 0.3 else float(rng.normal(0, 5).__round__(3)),
                 variance=float(np.exp(rng.uniform(-2, 2)).__round__(4)),
                 affected_proportion=float(rng.choice([1.0, 0.5, 0.0, 0.34, 0.8])))
    elif gen == "outliers":
        r.update(n_outliers=int(rng.integers(1, n + 1)), outlier_size=float(rng.normal(0, 10).__round__(3)),
                 frame=["single", "single", "concat", "assigned", "fortran", "datetime", "offset", "view"][
                     int(rng.integers(8))])
    else:
        r["n"] = n = max(n, 4)
        r["bad"] = ["too-few-means", "too-many-variances", "cpt-beyond-n", "cpt-negative",
                    "anomaly-beyond-n", "anomaly-empty", "anomaly-reversed", "anomaly-negative",
                    "anomaly-wrong-arity", "anomaly-means-mismatch", "anomaly-list-empty"][int(rng.integers(11))]
    return r


def _index_ok(df, n):
    return list(df.index) == list(range(n)) and df.index.dtype.kind == "i"


def _close(a, b):
    return np.all(np.abs(a - b) <= 8 * 2.0 ** -52 * (np.abs(a) + np.abs(b)) + 1e-300)


def exec_case(ctx, r):
    from skchange.datasets.generate import (add_linspace_outliers, generate_alternating_data,
                                            generate_anomalous_data, generate_changing_data)

    gen, n, p, seed = r["gen"], r["n"], r["p"], r["seed"]
    ctx.case()
    ctx.stat(f"gen[{gen}]")
    if n == 1:
        ctx.stat("cases[n=1]")
    if seed == 0:
        ctx.stat("cases[seed=0]")
    if r.get("shuffled"):
        ctx.stat("cases[anomalies not in chronological order]")
    sub = f"generate-{gen}"

    def call(f, *a, **k):
        try:
            return "ok", f(*a, **k)
        except ValueError as ex:
            return "ValueError", str(ex)
        except Exception as ex:
            return "other", f"{type(ex).__name__}: {ex}"

    def basic(df, nn, pp, label, index=None):
        if not isinstance(df, pd.DataFrame) or df.shape != (nn, pp):
            ctx.violation(sub, "shape", f"{label}: output {type(df).__name__} shape "
                          f"{getattr(df, 'shape', None)} != ({nn}, {pp})", r)
            return False
        if index is not None:
            if not df.index.equals(index):
                ctx.violation(sub, "index", f"{label}: index differs from the input frame's: {df.index!r:.200}", r)
                return False
        elif not _index_ok(df, nn):
            ctx.violation(sub, "index", f"{label}: index is not 0..n-1: {df.index!r}", r)
            return False
        if not np.all(np.isfinite(df.to_numpy())):
            ctx.violation(sub, "nonfinite", f"{label}: non-finite output", r)
            return False
        return True

    if gen == "changing":
        cp, means, vars_ = r["changepoints"], r["means"], r["variances"]
        k = len(cp) + 1
        if r.get("repeated"):
            ctx.stat("cases[zero-length segments]")
        label = f"generate_changing_data(n={n}, changepoints={cp}, p={p}, seed={seed})"
        # the SAME argument objects are passed to both calls (identical arguments): they must not be
        # modified by the generator
        a_cp, a_means, a_vars = list(cp), [np.array(m) for m in means], _lists(vars_)
        before = repr((a_cp, a_means, a_vars))
        st, out = call(generate_changing_data, n, a_cp, a_means, a_vars, seed)
        if st != "ok":
            ctx.violation(sub, "valid-call-raised", f"{label}: {st}: {out}", r)
            return
        if not basic(out, n, p, label):
            return
        st2, out2 = call(generate_changing_data, n, a_cp, a_means, a_vars, seed)
        if repr((a_cp, a_means, a_vars)) != before:
            ctx.violation(sub, "argument-modified", f"{label}: the caller's argument objects were modified: "
                          f"{before[:120]} -> {repr((a_cp, a_means, a_vars))[:120]}", r)
            return
        if st2 != "ok" or not out.equals(out2):
            ctx.violation(sub, "not-reproducible", f"{label}: two calls with the same seed differ", r)
            return
        st3, z = call(generate_changing_data, n, list(cp), [np.zeros(p)], [np.ones(p)], seed)
        if st3 != "ok" or not basic(z, n, p, label + " [no effect]"):
            return
        z, o = z.to_numpy(), out.to_numpy()
        mv, vv = _expand(means, k, p), _expand(vars_, k, p)
        edges = [0] + list(cp) + [n]
        for (a, b, m, v) in zip(edges[:-1], edges[1:], mv, vv):
            ctx.stat("segments_checked")
            if not _close(o[a:b], m + np.sqrt(v) * z[a:b]):
                ctx.violation(sub, "segment-placement", f"{label}: rows [{a},{b}) are not "
                              f"mean+sqrt(var)*z for mean={m.tolist()} var={v.tolist()}", r)
                return
        if len(cp) >= 1 and (p > 1 or len(cp) >= 2):
            ctx.nt(digest(r))
    elif gen == "anomalous":
        an, means, vars_ = r["anomalies"], r["means"], r["variances"]
        k = len(an)
        label = f"generate_anomalous_data(n={n}, anomalies={an}, p={p}, seed={seed})"
        args = lambda mm, vv: (n, [tuple(a) for a in an], mm, vv, seed)
        same = args([np.array(m) for m in means], _lists(vars_))  # the same objects for both calls
        before = repr(same)
        st, out = call(generate_anomalous_data, *same)
        if st != "ok":
            ctx.violation(sub, "valid-call-raised", f"{label}: {st}: {out}", r)
            return
        if not basic(out, n, p, label):
            return
        st2, out2 = call(generate_anomalous_data, *same)
        if repr(same) != before:
            ctx.violation(sub, "argument-modified", f"{label}: the caller's argument objects were modified", r)
            return
        if st2 != "ok" or not out.equals(out2):
            ctx.violation(sub, "not-reproducible", f"{label}: two calls with the same seed differ", r)
            return
        st3, z = call(generate_anomalous_data, *args([np.zeros(p)], [np.ones(p)]))
        if st3 != "ok" or not basic(z, n, p, label + " [no effect]"):
            return
        z, o = z.to_numpy(), out.to_numpy()
        mv, vv = _expand(means, k, p), _expand(vars_, k, p)
        covered = np.zeros(n, dtype=bool)
        for (a, b), m, v in zip(an, mv, vv):
            ctx.stat("segments_checked")
            covered[a:b] = True
            if not _close(o[a:b], m + np.sqrt(v) * z[a:b]):
                ctx.violation(sub, "segment-placement", f"{label}: rows [{a},{b}) are not "
                              f"mean+sqrt(var)*z for mean={m.tolist()} var={v.tolist()}", r)
                return
        if not np.array_equal(o[~covered], z[~covered]):
            ctx.violation(sub, "outside-changed", f"{label}: rows outside the anomalies differ from "
                          "the standard-normal output for the same seed", r)
            return
        if p > 1 or k >= 2:
            ctx.nt(digest(r))
    elif gen == "alternating":
        ns, sl = r["n_segments"], r["segment_length"]
        kw = dict(n_segments=ns, segment_length=sl, p=p, mean=r["mean"], variance=r["variance"],
                  affected_proportion=r["affected_proportion"], random_state=seed)
        label = f"generate_alternating_data({kw})"
        st, out = call(generate_alternating_data, **kw)
        if st != "ok":
            ctx.violation(sub, "valid-call-raised", f"{label}: {st}: {out}", r)
            return
        nn = ns * sl
        if not basic(out, nn, p, label):
            return
        st2, out2 = call(generate_alternating_data, **kw)
        if st2 != "ok" or not out.equals(out2):
            ctx.violation(sub, "not-reproducible", f"{label}: two calls with the same seed differ", r)
            return
        st3, z = call(generate_alternating_data, **dict(kw, mean=0.0, variance=1.0))
        if st3 != "ok" or not basic(z, nn, p, label + " [no effect]"):
            return
        z, o = z.to_numpy(), out.to_numpy()
        na = int(np.round(p * r["affected_proportion"]))
        for i in range(ns):
            a, b = i * sl, (i + 1) * sl
            m, v = np.zeros(p), np.ones(p)
            if i % 2 == 1:
                m[:na] = r["mean"]
                v[:na] = r["variance"]
            ctx.stat("segments_checked")
            if not _close(o[a:b], m + np.sqrt(v) * z[a:b]):
                ctx.violation(sub, "segment-placement", f"{label}: segment {i} rows [{a},{b}) are not "
                              f"mean+sqrt(var)*z for mean={m.tolist()} var={v.tolist()}", r)
                return
        if ns >= 2 and (p > 1 or ns >= 3):
            ctx.nt(digest(r))
    elif gen == "outliers":
        k, size = r["n_outliers"], r["outlier_size"]
        vals = np.random.default_rng(seed).standard_normal((n, p))
        cols = [f"var{i}" for i in range(p)]
        frame = r.get("frame", "single")
        # the same numbers in frames of different internal structure / index (all ordinary ways of
        # building a frame): one block, several blocks (concat / column assignment), Fortran order,
        # datetime or offset index, a column subset of a wider frame
        if frame == "concat" and p >= 2:
            h = p // 2
            base = pd.concat([pd.DataFrame(vals[:, :h].copy(), columns=cols[:h]),
                              pd.DataFrame(vals[:, h:].copy(), columns=cols[h:])], axis=1)
        elif frame == "assigned":
            base = pd.DataFrame(index=pd.RangeIndex(n))
            for j, c in enumerate(cols):
                base[c] = vals[:, j]
        elif frame == "fortran":
            base = pd.DataFrame(np.asfortranarray(vals), columns=cols)
        elif frame == "datetime":
            base = pd.DataFrame(vals.copy(), columns=cols, index=pd.date_range("2021-03-01", periods=n, freq="D"))
        elif frame == "offset":
            base = pd.DataFrame(vals.copy(), columns=cols, index=pd.RangeIndex(5, 5 + 3 * n, 3))
        elif frame == "view":
            wide = pd.DataFrame(np.column_stack((vals, np.zeros((n, 2)))), columns=cols + ["extra1", "extra2"])
            base = wide[cols].copy()
        else:
            base = pd.DataFrame(vals.copy(), columns=cols)
        ctx.stat(f"outlier_frames[{frame}]")
        before = base.to_numpy().copy()
        index_before = base.index.copy()
        label = f"add_linspace_outliers(df[{n}x{p}] built as {frame}, n_outliers={k}, outlier_size={size})"
        ctx.stat("outlier_cases")
        st, out = call(add_linspace_outliers, base, k, size)
        if st != "ok":
            ctx.violation(sub, "valid-call-raised", f"{label}: {st}: {out}", r)
            return
        if not basic(out, n, p, label, index=index_before):
            return
        if list(out.columns) != cols:
            ctx.violation(sub, "columns", f"{label}: columns {list(out.columns)} != {cols}", r)
            return
        want = before.copy()
        rows = np.linspace(0, n - 1, k, dtype=int)
        want[rows] += size
        if not _close(out.to_numpy(), want):
            diff_rows = np.flatnonzero(np.any(out.to_numpy() != before, axis=1)).tolist()
            ctx.violation(sub, "outlier-rows", f"{label}: rows changed {diff_rows[:12]} != expected "
                          f"{rows.tolist()[:12]} (or wrong amount)", r)
            return
        if p > 1 or k >= 2:
            ctx.nt(digest(r))
    else:
        bad = r["bad"]
        ctx.stat("invalid_args_checked")
        ctx.stat(f"invalid[{bad}]")
        m2 = [np.zeros(p), np.ones(p)]
        v2 = [np.ones(p), np.ones(p)]
        calls = {
            "too-few-means": (generate_changing_data, (n, [1, 2], m2, 1.0, seed)),
            "too-many-variances": (generate_changing_data, (n, [2], m2, v2 + [np.ones(p)], seed)),
            "cpt-beyond-n": (generate_changing_data, (n, [1, n + 1 + seed % 3], 0.0, 1.0, seed)),
            "cpt-negative": (generate_changing_data, (n, [-1 - seed % 3, 2], 0.0, 1.0, seed)),
            "anomaly-beyond-n": (generate_anomalous_data, (n, [(1, n + 1 + seed % 3)], 1.0, 1.0, seed)),
            "anomaly-empty": (generate_anomalous_data, (n, [(2, 2)], 1.0, 1.0, seed)),
            "anomaly-reversed": (generate_anomalous_data, (n, [(3, 1)], 1.0, 1.0, seed)),
            "anomaly-negative": (generate_anomalous_data, (n, [(-2 - seed % 3, 2)], 1.0, 1.0, seed)),
            "anomaly-wrong-arity": (generate_anomalous_data, (n, [(1, 2, 3)], 1.0, 1.0, seed)),
            "anomaly-means-mismatch": (generate_anomalous_data, (n, [(0, 1), (2, 3)], [1.0, 2.0, 3.0], 1.0, seed)),
        }
        if bad == "anomaly-list-empty":
            # an empty LIST of anomalies: "empty anomalies raise ValueError"; the statement can also be read as
            # "no anomaly requested" = the standard-normal output everywhere.  Either is accepted; any other
            # exception (or other values) is not.
            mm = [1.0, [1.0], np.ones(p)][seed % 3]
            st, out = call(generate_anomalous_data, n, [], mm, 1.0, seed)
            label = f"generate_anomalous_data(n={n}, anomalies=[], means={mm!r}, seed={seed})"
            if st == "other":
                ctx.violation("invalid-arguments", f"wrong-exception[{bad}]", f"{label}: raised {out}", r)
            elif st == "ok":
                pp = 1 if seed % 3 < 2 else p
                _, z = call(generate_anomalous_data, n, [(0, 1)], np.zeros(pp), np.ones(pp), seed)
                if out.shape != (n, pp) or not np.array_equal(out.to_numpy(), z.to_numpy()):
                    ctx.violation("invalid-arguments", f"accepted[{bad}]", f"{label}: accepted, but the output is "
                                  "not the standard-normal output for the same seed", r)
                ctx.stat("empty_anomaly_list_returned_noise")
            else:
                ctx.stat("empty_anomaly_list_rejected")
            ctx.nt(digest(r))
            ctx.sample(r)
            return
        f, a = calls[bad]
        st, out = call(f, *a)
        label = f"{f.__name__}{a!r:.160}"
        if st == "ok":
            ctx.violation("invalid-arguments", f"accepted[{bad}]", f"{label}: inconsistent arguments accepted", r)
        elif st == "other":
            ctx.violation("invalid-arguments", f"wrong-exception[{bad}]", f"{label}: raised {out}", r)
        ctx.nt(digest(r))
    ctx.sample(r)


def _lists(v):
    if isinstance(v, list):
        return [np.array(x) if isinstance(x, list) else x for x in v]
    return v


def run(ctx):
    for _ in range(CASES[ctx.tier]):
        exec_case(ctx, make_recipe(ctx.rng, ctx.tier))


def replay(ctx, sub, recipe):
    exec_case(ctx, recipe)
