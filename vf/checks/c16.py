"""C16 - MVCAPA's affected columns are the optimal sparse subset for each anomaly."""
import numpy as np

from vf import instrument as I
from vf.core import digest
from vf.models import convert as CV
from vf.spec import INDEX_KINDS, TIED_INDEX_KINDS, S, build, make_frame, short
from vf.zoo import PENALTY_FNS

SHARDS = {"quick": 16, "thorough": 16}
WATCHDOG = {"quick": 1800, "thorough": 10800}
CASES = {"quick": 100, "thorough": 900}
FLOORS = {
    "quick": {"distinct_nontrivial": 550, "anomalies_checked": 12000, "point_anomalies_checked": 9700,
              "anomalies_with_proper_subset": 5400, "transform_cells_checked": 100000},
    "thorough": {"distinct_nontrivial": 1500, "anomalies_checked": 10000},
}
ANCHORS = [
    "skchange.anomaly_detectors.mvcapa.find_affected_components",
    "skchange.anomaly_detectors.mvcapa.run_mvcapa",
    "skchange.anomaly_detectors.base.SubsetCollectiveAnomalyDetector.sparse_to_dense",
]
LEVEL = "exploration"
RULE = (
    "case = MVCAPA(saving, penalties, scales, m, M) on seeded multivariate data (p in 2..6, n<=70 / "
    "150) with dense, sparse and single-column collective anomalies and spikes on column subsets. "
    "Oracle per reported anomaly: savings of the interval from a FRESH clone of the saving (public "
    "evaluate) sorted decreasingly; k = argmax_k sum_{j<=k}(S_(j) - beta_j) - alpha under the public "
    "sparse penalty function (the configured point penalty for length-1 anomalies); icolumns must be "
    "the top-k columns in decreasing-saving order; transform must mark exactly these cells. Cases "
    "where the k-decision margin or the gap between the k-th and (k+1)-th (or two listed) savings is "
    "within 1e-9 are skipped and counted (ties excluded). Non-trivial = anomaly with 1<=k<p; "
    "distinct by recipe digest."
)
ASSUMPTIONS = ["ties excluded by margin 1e-9*(1+max saving)"]


def make_recipe(rng, tier):
    p = int(rng.integers(2, 7))
    n = int(rng.integers(12, 70 if tier == "quick" else 150))
    X = rng.standard_normal((n, p))
    t = int(rng.integers(0, 5))
    while t < n - 2:
        ln = int(rng.integers(2, 12))
        pattern = rng.random()
        if pattern < 0.3:
            cols = np.ones(p, dtype=bool)
        elif pattern < 0.6:
            cols = np.zeros(p, dtype=bool)
            cols[int(rng.integers(p))] = True
        else:
            cols = rng.random(p) < 0.5
            if not cols.any():
                cols[int(rng.integers(p))] = True
        size = rng.uniform(1.0, 6.0, size=p) * rng.choice([-1, 1], size=p)
        X[t:t + ln, cols] += size[cols]
        t += ln + int(rng.integers(0, 15))
    for _ in range(int(rng.integers(0, 4))):
        q = int(rng.integers(n))
        cols = rng.random(p) < 0.4
        if not cols.any():
            cols[int(rng.integers(p))] = True
        X[q, cols] += rng.uniform(4, 12) * rng.choice([-1, 1])
    sav = [S("L2Saving"), None, S("L2Cost", param=0.0), S("GaussianVarCost", param={"tuple": [0.0, 1.0]}),
           S("ClosureTableSaving", seed=int(rng.integers(10 ** 6)), maxval=9, zero_prob=0.3, n_params=1)][
        int(rng.integers(5))]
    names = ["dense", "sparse", "combined", "intermediate"]

    def pen():
        return {"fn": PENALTY_FNS[int(rng.integers(len(PENALTY_FNS)))]} if rng.random() < 0.3 \
            else names[int(rng.integers(4))]

    m = int(rng.integers(2, 5))
    spec = S("MVCAPA", collective_saving=sav, point_saving=[None, S("L2Saving"), S("L2Cost", param=0.0)][
        int(rng.integers(3))], collective_penalty=pen(),
        collective_penalty_scale=float(rng.choice([0.1, 0.3, 0.6, 1.0, 2.0])), point_penalty=pen(),
        point_penalty_scale=float(rng.choice([0.1, 0.3, 0.6, 1.0, 2.0])), min_segment_length=m,
        max_segment_length=int(rng.integers(m, 40)), ignore_point_anomalies=False)
    return {"det": spec, "X": X, "index": (INDEX_KINDS + TIED_INDEX_KINDS)[int(rng.integers(7))],
            "columns": ["default", "strings", "duplicate", "printsame"][int(rng.integers(4))],
            "history": [None, None, "same_object", "inplace", "reconfigured"][int(rng.integers(5))],
            "hseed": int(rng.integers(2 ** 31))}


def exec_case(ctx, r):
    from skchange.anomaly_detectors.mvcapa import capa_penalty_factory, sparse_mvcapa_penalty
    from skchange.anomaly_scores import L2Saving, to_saving

    X = np.asarray(r["X"], dtype=float)
    n, p = X.shape
    spec = r["det"]
    df = make_frame(X, r["index"], r["columns"])
    ctx.case()
    label = f"{short(spec)} X[{n}x{p}] index={r['index']}"
    sub = "affected-columns"
    I.drain()
    try:
        hist = r.get("history")
        ctx.stat(f"history[{hist}]")
        hr = np.random.default_rng(r.get("hseed", 0))
        if hist == "inplace":
            # the caller's frame holds other values while fitting and predicting once, and is then
            # overwritten IN PLACE with X: the judged calls get the same object again
            df0 = make_frame(hr.standard_normal((n, p)) * 2.0, r["index"], r["columns"])
            det = build(spec).fit(df0)
            det.predict(df0)
            det.transform(df0)
            df0.iloc[:, :] = X
            df = df0
        elif hist == "same_object":
            det = build(spec).fit(df)
            det.predict(df)
            nb = n + int(hr.integers(0, n + 1))
            det.predict(make_frame(hr.standard_normal((nb, p)) * 2.0, r["index"], r["columns"]))
        elif hist == "reconfigured":
            # built with another baseline / other scales, used once, then given the real configuration
            # through (nested) set_params: must behave like a freshly built detector
            det = build(spec)
            first, back = {}, {}
            for slot in ("collective_saving", "point_saving"):
                sp = spec["kw"].get(slot)
                if isinstance(sp, dict) and sp["cls"] == "L2Cost" and not isinstance(sp["kw"].get("param"), dict):
                    first[f"{slot}__param"], back[f"{slot}__param"] = float(hr.normal(3, 1)), sp["kw"]["param"]
            for k_ in ("collective_penalty_scale", "point_penalty_scale"):
                first[k_], back[k_] = float(spec["kw"][k_]) * 3.0 + 0.5, spec["kw"][k_]
            det.set_params(**first)
            det.fit(df)
            det.predict(df)
            det.set_params(**back)
            det.fit(df)
        else:
            det = build(spec).fit(df)
        y = det.predict(df)
        dense = det.transform(df)
    except Exception as ex:
        ctx.violation(sub, "exception", f"{label}: {type(ex).__name__}: {ex}", r)
        return
    cs = build(spec["kw"]["collective_saving"])
    ps = build(spec["kw"]["point_saving"])
    cs = to_saving(L2Saving() if cs is None else cs).fit(X)
    ps = to_saving(L2Saving() if ps is None else ps).fit(X)
    sp_alpha, sp_betas = sparse_mvcapa_penalty(n, p, cs.get_param_size(1), scale=det.collective_penalty_scale)
    pt_alpha, pt_betas = capa_penalty_factory(det.point_penalty)(
        n, p, ps.get_param_size(1), scale=det.point_penalty_scale)
    arr = y["ilocs"].array
    anoms = list(zip(np.asarray(arr.left).astype(int).tolist(), np.asarray(arr.right).astype(int).tolist()))
    proper = False
    for (l, rr), cols in zip(anoms, y["icolumns"]):
        cols = np.asarray(cols).astype(int).tolist()
        point = rr - l == 1
        sv = (ps if point else cs).evaluate(np.array([[l, rr]]))[0]
        alpha, betas = (pt_alpha, np.asarray(pt_betas, dtype=float)) if point else (
            sp_alpha, np.asarray(sp_betas, dtype=float))
        order = np.argsort(-sv, kind="stable")
        s_sorted = sv[order]
        cum = np.cumsum(s_sorted - betas) - alpha
        k = int(np.argmax(cum)) + 1
        width = 1e-9 * (np.abs(sv).max() + abs(alpha) + np.abs(betas).max()) + 1e-300  # relative only
        second = np.partition(cum, -2)[-2] if p >= 2 else -np.inf
        ambiguous = (cum[k - 1] - second <= width) or np.any(np.abs(np.diff(s_sorted[:k + 1])) <= width)
        if ambiguous:
            ctx.stat("near_tie_skipped")
            continue
        ctx.stat("anomalies_checked")
        if point:
            ctx.stat("point_anomalies_checked")
        want = order[:k].tolist()
        if cols != want:
            how = "wrong-order" if sorted(cols) == sorted(want) else "wrong-subset"
            ctx.violation(sub, how, f"{label}: anomaly [{l},{rr}) reports columns {cols}; the savings "
                          f"{np.round(sv, 4).tolist()} under the {'point' if point else 'sparse'} penalty "
                          f"(alpha={alpha:.4g}, betas={np.round(betas, 4).tolist()}) give the optimal "
                          f"subset {want}", r, {"anomaly": [l, rr]})
        if any(sv[c] < sv[e] - width for c in cols for e in range(p) if e not in cols):
            ctx.violation(sub, "excluded-larger", f"{label}: anomaly [{l},{rr}): an excluded column has a "
                          f"larger saving than an included one (savings {np.round(sv, 4).tolist()}, "
                          f"columns {cols})", r)
        if 1 <= k < p:
            proper = True
            ctx.stat("anomalies_with_proper_subset")
    # transform marks exactly these cells
    try:
        ref = CV.reference_dense(y, n, p)
        got = dense.to_numpy()
        ctx.stat("transform_cells_checked", got.size)
        if got.shape != ref.shape or not np.array_equal(got, ref) or not dense.index.equals(df.index):
            ctx.violation("transform-cells", "wrong-cells", f"{label}: transform marks cells "
                          f"{np.argwhere(got != ref)[:6].tolist() if got.shape == ref.shape else got.shape} "
                          f"differently from predict", r)
        want_cols = [f"labels_{c}" for c in df.columns]
        if list(dense.columns) != want_cols:
            ctx.violation("transform-cells", "column-names", f"{label}: {list(dense.columns)} != {want_cols}", r)
    except Exception as ex:
        ctx.violation("transform-cells", "exception", f"{label}: {type(ex).__name__}: {ex}", r)
    for h in I.drain():
        if h["contract"] in ("K1", "K2"):
            ctx.violation(f"contract-{h['contract']}", "malformed", f"{label}: {h['message']}", r)
    if proper:
        ctx.nt(digest([spec, r["X"]]))
    ctx.sample({"case": label, "anomalies": anoms,
                "icolumns": [np.asarray(c).tolist() for c in y["icolumns"]]}, cap=3)


def run(ctx):
    I.install()
    for _ in range(CASES[ctx.tier]):
        exec_case(ctx, make_recipe(ctx.rng, ctx.tier))


def replay(ctx, sub, recipe):
    I.install()
    exec_case(ctx, recipe)
