"""C04 - detections are well-formed and respect the configured length limits."""
import os
import subprocess
import sys

import numpy as np

from vf import REPO_ROOT, VERIF_ROOT
from vf import history as H
from vf import instrument as I
from vf.core import digest
from vf.gen import ALL_KINDS, gen_data
from vf.models.wellformed import problems
from vf.spec import INDEX_KINDS, TIED_INDEX_KINDS, build, make_frame, short
from vf.zoo import DETECTORS, random_detector

SHARDS = {"quick": 16, "thorough": 16}
WATCHDOG = {"quick": 1800, "thorough": 10800}
CASES = {"quick": 250, "thorough": 2500}
FLOORS = {
    "quick": dict({"distinct_nontrivial": 1100, "K1_evaluations": 1800},
                  **{f"nonempty[{d}]": 120 for d in DETECTORS}),
    "thorough": dict({"distinct_nontrivial": 8000, "K1_evaluations": 15000},
                     **{f"nonempty[{d}]": 300 for d in DETECTORS}),
}
ANCHORS = [
    "skchange.change_detectors.base.ChangeDetector._format_sparse_output",
    "skchange.anomaly_detectors.base.CollectiveAnomalyDetector._format_sparse_output",
    "skchange.anomaly_detectors.base.SubsetCollectiveAnomalyDetector._format_sparse_output",
    "skchange.change_detectors.pelt.run_pelt",
    "skchange.change_detectors.seeded_binseg.run_seeded_binseg",
    "skchange.change_detectors.moving_window.get_moving_window_changepoints",
    "skchange.anomaly_detectors.mvcapa.run_base_capa",
    "skchange.anomaly_detectors.mvcapa.get_anomalies",
    "skchange.anomaly_detectors.circular_binseg.run_circular_binseg",
    "skchange.anomaly_detectors.anomalisers.StatThresholdAnomaliser._predict",
]
LEVEL = "exploration"
RULE = (
    "detector zoo: 7 detectors x random boundary and interior configurations (thresholds/penalties "
    "from 0 upward so outputs are dense with events; user-defined table/hash scorers included) x 15 "
    "data kinds (constant, ties, spikes, changes at the first/last admissible position, n at the "
    "minimum length) x p in 1..4 x 5 index types. Oracle: icontract post-condition K1 on predict() of "
    "every detector class = the structural predicate of the statement written clause by clause "
    "(range index, int64 strictly increasing changepoints in [1,n-1] with all segments >= "
    "min_segment_length / within [bandwidth, n-bandwidth]; sorted disjoint non-empty left-closed "
    "intervals in [0,n] labelled 1..K, lengths 1 or within [m,M] / >= msl strictly inside; MVCAPA "
    "columns non-empty, distinct, valid); the predicate is also applied directly to the returned "
    "frame. Thorough adds the repository's own test-suite run under the contract layer. "
    "Non-trivial = output with >=1 event; distinct by recipe digest; a detector class with too few "
    "non-empty outputs makes the run inconclusive."
)
ASSUMPTIONS = ["StatThresholdAnomaliser: generic anomaly clauses only (the statement gives it no length rule)",
               "no minimum spacing is demanded of moving-window changepoints"]


def make_recipe(rng, tier, which):
    spec, nmin, p = random_detector(rng, dense_events=bool(rng.random() < 0.75), pmax=4, which=which)
    r = rng.random()
    if r < 0.12:
        n = nmin
    elif r < 0.2:
        n = nmin + 1
    else:
        hi = 50 if tier == "quick" else 120
        if which == "CircularBinarySegmentation":
            hi = 30 if tier == "quick" else 50
        n = int(rng.integers(nmin, nmin + hi))
    kind = ALL_KINDS[int(rng.integers(len(ALL_KINDS)))]
    kw = spec["kw"]
    b = kw.get("bandwidth") or kw.get("min_segment_length") or 1
    X, _ = gen_data(rng, n, p, kind, boundary=b)
    return {"det": spec, "X": X, "data_kind": kind, "history": H.pick(rng), "hseed": int(rng.integers(2 ** 31)),
            "index": "range0" if rng.random() < 0.4 else (INDEX_KINDS + TIED_INDEX_KINDS)[int(rng.integers(7))]}


def exec_case(ctx, r):
    X = np.asarray(r["X"], dtype=float)
    n, p = X.shape
    spec = r["det"]
    name = spec["cls"]
    df = make_frame(X, r["index"])
    if name == "StatThresholdAnomaliser":
        df = df.iloc[:, 0]
    ctx.case()
    ctx.stat(f"cases[{name}]")
    label = f"{short(spec)} X[{n}x{p}] data={r['data_kind']} index={r['index']}"
    I.drain()
    try:
        # the judged predict may come after a history (vf/history.py): trained on other data, asked
        # about other data first, the caller's object edited in place, or configured through set_params
        # after having been used with other structural hyper-parameters
        def wrap(a):
            f = make_frame(a, r["index"], dtype=str(np.asarray(a).dtype))
            return f.iloc[:, 0] if name == "StatThresholdAnomaliser" else f
        nmin_h = 2 * int(spec["kw"].get("bandwidth") or spec["kw"].get("min_segment_length") or 2)
        hist = r.get("history")
        if name == "StatThresholdAnomaliser" and hist == "inplace":
            hist = None  # (a Series view of a frame: in-place assignment differs by pandas version)
        det, df = H.prepare(build(spec), X, hist, r.get("hseed", 0), nmin_h, wrap=wrap)
        ctx.stat(f"history[{hist}]")
        y = det.predict(df)
    except RuntimeError:
        ctx.stat("documented_runtimeerror")
        return
    except Exception as ex:
        # whether a configuration must run at all is property C14; C04 judges outputs
        ctx.stat(f"exceptions[{type(ex).__name__}]")
        I.drain()
        return
    seen = False
    for h in I.drain():
        if h["contract"] == "K1":
            seen = True
            ctx.violation("contract-K1", f"malformed[{h['cls']}]", f"{label}: {h['message']}", r)
    # the same predicate applied directly (covers the case where the contract was bypassed)
    for pr in problems(det, n, p, y):
        if not seen:
            ctx.violation("predicate", f"malformed[{name}]", f"{label}: {pr}", r)
    if len(y) >= 1:
        ctx.stat(f"nonempty[{name}]")
        ctx.stat("events", len(y))
        ctx.nt(digest([spec, r["X"]]))
    ctx.sample({"case": label, "predict": y.astype(str).to_dict("list")}, cap=4)


def pytest_under_contracts(ctx):
    """Extra workload (thorough): the repository's own tests with the contract layer on."""
    out = os.path.join(VERIF_ROOT, ".work", f"pytest-contracts-{os.getpid()}.json")
    os.makedirs(os.path.dirname(out), exist_ok=True)
    env = dict(os.environ, VERIF_CONTRACT_LOG=out, PYTHONPATH=f"{REPO_ROOT}:{VERIF_ROOT}",
               SKCHANGE_VERIF="1")
    try:
        subprocess.run([sys.executable, "-m", "pytest", "-q", "-x", "-p", "no:cacheprovider",
                        "-p", "vf.pytest_plugin", "--timeout=900", os.path.join(REPO_ROOT, "skchange")],
                       cwd=REPO_ROOT, env=env, timeout=1800, stdout=subprocess.DEVNULL,
                       stderr=subprocess.DEVNULL)
    except subprocess.TimeoutExpired:
        ctx.notes.append("pytest-under-contracts workload timed out (inconclusive, ignored)")
        return
    if not os.path.exists(out):
        ctx.notes.append("pytest-under-contracts produced no log")
        return
    import json

    with open(out) as f:
        log = json.load(f)
    os.remove(out)
    ctx.stat("pytest_K1_evaluations", log["counts"].get("K1", 0))
    ctx.stat("pytest_K4_evaluations", log["counts"].get("K4", 0))
    for h in log["hits"]:
        if h["contract"] == "K1":
            ctx.violation("contract-K1-pytest", f"malformed[{h['cls']}]",
                          f"repository test-suite under contracts: {h['message']}",
                          {"workload": "pytest", "hit": h})


def run(ctx):
    I.install()
    for i in range(CASES[ctx.tier]):
        exec_case(ctx, make_recipe(ctx.rng, ctx.tier, DETECTORS[i % len(DETECTORS)]))
    ctx.stat("K1_evaluations", I.COUNTS["K1"])
    if ctx.tier == "thorough" and ctx.shard == 0:
        pytest_under_contracts(ctx)


def replay(ctx, sub, recipe):
    I.install()
    if recipe.get("workload") == "pytest":
        print("pytest-workload witness: re-run `./check C04 --tier thorough`")
        return
    exec_case(ctx, recipe)
