"""C02 - PELT returns an exact minimiser of the penalised segmentation cost."""
import itertools

import numpy as np

from vf import history as H
from vf import instrument as I
from vf.core import digest
from vf.gen import gen_data
from vf.spec import S, build, short

SHARDS = {"quick": 16, "thorough": 16}
WATCHDOG = {"quick": 1800, "thorough": 10800}
CASES = {"quick": 130, "thorough": 1500}
FLOORS = {
    "quick": {"distinct_nontrivial": 3300, "prefix_scores_compared": 46000, "cases[msl>1]": 730,
              "cases_with_pruned_start": 1900, "cases[user-cost]": 260, "cases[penalty=0]": 100,
              "cases[int64 data]": 56},
    "thorough": {"distinct_nontrivial": 3000, "prefix_scores_compared": 400000,
                 "exhaustive_ternary_runs": 100000},
}
ANCHORS = [
    "skchange.change_detectors.pelt.run_pelt",
    "skchange.change_detectors.pelt.get_changepoints",
    "skchange.change_detectors.pelt.PELT._get_penalty",
]
LEVEL = "exploration"
EXHAUSTIVE_SUBSPACES = {
    "quick": ["all sequences over {0,1,2} of length n<=6 x min_segment_length in {1,2,3} x penalty in "
              "{0, 0.5, 1, 2} with L2Cost"],
    "thorough": ["all sequences over {0,1,2} of length n<=9 x min_segment_length in {1,2,3} x penalty "
                 "in {0, 0.5, 1, 2} with L2Cost and ModeCost"],
}
RULE = (
    "case = PELT(cost, penalty_scale, min_segment_length) through fit/predict/transform_scores; costs "
    "L2, GaussianVar (msl>=2), GaussianCov (msl>=p+1), fixed-parameter versions (additive: ties at the "
    "pruning boundary), user L1Cost / ModeCost / integer ClosureTableCost; penalty scales 0, tiny, "
    "0.02..3; msl 1..6; n from 2*msl to 60 (300 thorough); weak signals emphasised. Oracle: unpruned "
    "optimal partitioning over the cost table obtained from a FRESH clone through public evaluate(), "
    "beta = detector.penalty_: score[t] == F*(t+1) for every prefix >= msl, all segments >= msl, "
    "penalised cost of the returned segmentation == F*(n) == final score. Premise (split inequality) "
    "checked on the table for every case (all triples, n<=120); failing cases discarded and counted. "
    "Also the kernel run_pelt driven directly with integer-typed and float penalties, and integer-dtype "
    "data. Non-trivial = trace shows >=1 pruned start and >=1 changepoint and n>=3*msl; distinct by digest."
)
ASSUMPTIONS = ["with ties any minimiser is accepted: only costs are compared, within 1e-9*(1+|F|)",
               "the cost table comes from the same cost class (C01 owns cost correctness)"]


def reference_op(C, n, msl, beta):
    """Unpruned optimal partitioning. C[s,e] aggregated cost; returns F[0..n] (inf where infeasible)."""
    F = np.full(n + 1, np.inf)
    F[0] = -beta
    for t in range(msl, n + 1):
        cands = [0] + list(range(msl, t - msl + 1))
        F[t] = min(F[s] + C[s, t] + beta for s in cands)
    return F


def cost_table(cost_spec, X, msl):
    from skchange.costs import L2Cost

    n = X.shape[0]
    c = build(cost_spec)
    c = (L2Cost() if c is None else c).fit(X)
    ms = c.min_size or 1
    lo = max(ms, 1)
    pairs = [(s, e) for s in range(n) for e in range(s + lo, n + 1)]
    vals = c.evaluate(np.array(pairs, dtype=np.int64)).sum(axis=1)
    C = np.full((n + 1, n + 1), np.nan)
    for (s, e), v in zip(pairs, vals):
        C[s, e] = v
    return C, lo


def split_inequality_ok(C, n, lo):
    for s in range(n):
        for e in range(s + 2 * lo, n + 1):
            ks = np.arange(s + lo, e - lo + 1)
            if ks.size and np.any(C[s, ks] + C[ks, e] > C[s, e] + 1e-9 * (1 + abs(C[s, e]))):
                return False
    return True


def _tol(C, n, beta):
    """Purely relative: the reference and the implementation add up the SAME cost-table entries, so
    they differ by summation order only (<= n rounding steps on numbers of the table's magnitude).
    No absolute slack: costs scale with the square of the data's unit of measurement."""
    fin = np.abs(C[np.isfinite(C)])
    return 1e-9 * n * ((fin.max() if fin.size else 0.0) + abs(beta)) + 1e-300


def make_recipe(rng, tier):
    k = ["L2Cost", "L2Cost", "GaussianVarCost", "GaussianCovCost", "L2fixed", "GVarfixed", "L1Cost",
         "ModeCost", "ClosureTableCost", "none"][int(rng.integers(10))]
    p = int(rng.integers(1, 4))
    msl = int(rng.integers(1, 7))
    user = False
    if k == "none":
        cost = None
    elif k == "L2Cost":
        cost = S("L2Cost", param=None)
    elif k == "GaussianVarCost":
        cost, msl = S("GaussianVarCost", param=None), max(2, msl)
    elif k == "GaussianCovCost":
        p = int(rng.integers(1, 3))
        cost, msl = S("GaussianCovCost", param=None), max(p + 1, msl)
    elif k == "L2fixed":
        cost = S("L2Cost", param=round(float(rng.normal()), 2))
    elif k == "GVarfixed":
        cost, msl = S("GaussianVarCost", param={"tuple": [round(float(rng.normal()), 2),
                                                          float(rng.choice([0.5, 1.0, 4.0]))]}), max(2, msl)
    elif k == "L1Cost":
        cost, user = S("L1Cost", param=None), True
        if rng.random() < 0.4:  # declared multivariate (one output column), minimum size still 1
            cost["kw"]["multivariate"] = True
    elif k == "ModeCost":
        cost, user = S("ModeCost", param=None), True
    else:
        cost, user = S("ClosureTableCost", seed=int(rng.integers(10 ** 6)), maxinc=int(rng.integers(1, 4)),
                       zero_prob=float(rng.choice([0.2, 0.5, 0.8]))), True
        if rng.random() < 0.4:
            cost["kw"]["multivariate"] = True
    nmax = 60 if tier == "quick" else (300 if rng.random() < 0.05 else 90)
    n = int(rng.integers(2 * msl, max(2 * msl + 1, nmax + 1)))
    if rng.random() < 0.07:
        n = 2 * msl + int(rng.integers(0, 2))
    kinds = ["weak_changes", "weak_changes", "mean_changes", "noise", "small_alphabet", "var_changes",
             "spikes", "piecewise_const", "dyadic", "heavy", "ramp"]
    dk = kinds[int(rng.integers(len(kinds)))]
    if k == "ModeCost":
        dk = "small_alphabet"
    if k == "GaussianCovCost" and dk in ("small_alphabet", "piecewise_const", "dyadic"):
        dk = "weak_changes"
    X, _ = gen_data(rng, n, p, dk)
    if k in ("GaussianVarCost", "GaussianCovCost") and rng.random() < 0.4:
        X = X * float(rng.choice([0.01, 0.05, 0.15]))  # small scale: negative Gaussian costs
    elif k in ("L2Cost", "none", "L1Cost", "L2fixed") and rng.random() < 0.25:
        # the same signal in a small unit of measurement: costs of order unit^2 (no absolute
        # tolerance anywhere may hide them); only small penalties give changepoints there
        X = X * float(rng.choice([1e-3, 1e-5, 1e-7]))
        dk = dk + "*tiny"
    if k == "ClosureTableCost" and rng.random() < 0.5:
        cost["kw"]["offset"] = int(rng.choice([2, 5]))  # negative table costs
    scale = float(rng.choice([0.0, 1e-6, 0.02, 0.1, 0.3, 0.7, 1.0, 2.0, 3.0]))
    if dk.endswith("*tiny"):
        scale = float(rng.choice([0.0, 0.0, 1e-15, 1e-12, 1e-9]))
    int_dtype = bool(k in ("L2Cost", "none", "L1Cost", "L2fixed") and rng.random() < 0.15)
    if int_dtype:
        X = np.round(X * 2)
    return {"cost": cost, "msl": msl, "scale": scale, "X": X, "data_kind": dk, "user": user,
            "int_dtype": int_dtype, "history": H.pick(rng), "hseed": int(rng.integers(2 ** 31)),
            "frame": "df" if rng.random() < 0.5 else None}


def exec_case(ctx, r, exhaustive=False):
    X = np.asarray(r["X"], dtype=float)
    if X.ndim == 1:
        X = X.reshape(-1, 1)
    if r.get("int_dtype"):
        X = X.astype(np.int64)  # the same numbers passed with an integer dtype
        ctx.stat("cases[int64 data]")
    n, p = X.shape
    msl, scale, cost_spec = r["msl"], r["scale"], r["cost"]
    spec = S("PELT", cost=cost_spec, penalty_scale=scale, min_segment_length=msl)
    sub = "pelt-optimality"
    ctx.case()
    if exhaustive:
        ctx.stat("exhaustive_ternary_runs")
    else:
        ctx.stat(f"cost[{cost_spec['cls'] if cost_spec else 'default'}]")
        if msl > 1:
            ctx.stat("cases[msl>1]")
        if r.get("user"):
            ctx.stat("cases[user-cost]")
        if scale == 0.0:
            ctx.stat("cases[penalty=0]")
    label = f"{short(spec)} X[{n}x{p}] data={r.get('data_kind')}"
    I.drain()
    I.start_trace()
    try:
        # the judged calls may come after a history on the caller's same object (vf/history.py):
        # Xarg holds exactly X's values and X's shape (penalties depend on the training shape)
        hist = r.get("history") if r.get("history") in ("same_object", "inplace", "reconfigured") else None
        det, Xarg = H.prepare(build(spec), X, hist, r.get("hseed", 0), 2 * msl, r.get("frame"))
        ctx.stat(f"history[{hist}]")
        if r.get("hseed", 0) % 2:
            # transform_scores FIRST: it must stand on its own (the history may have left the scores
            # of other values with the same index behind)
            scores = np.asarray(det.transform_scores(Xarg), dtype=float).ravel().copy()
            y = det.predict(Xarg)
        else:
            y = det.predict(Xarg)
            scores = np.asarray(det.transform_scores(Xarg), dtype=float).ravel()
    except RuntimeError:
        I.stop_trace()
        ctx.stat("documented_runtimeerror")
        return
    except Exception as ex:
        I.stop_trace()
        ctx.violation(sub, "exception", f"{label}: {type(ex).__name__}: {ex}", r)
        return
    trace = I.stop_trace()
    beta = float(det.penalty_)
    try:
        C, lo = cost_table(cost_spec, X.astype(float), msl)
    except RuntimeError:
        ctx.stat("oracle_runtimeerror_discarded")
        return
    if not split_inequality_ok(C, n, lo):
        ctx.stat("premise_failed_discarded")
        return
    F = reference_op(C, n, msl, beta)
    tol = _tol(C, n, beta)

    # trace facts (evidence): did the implementation prune a start?
    pruned = False
    for (cls, c) in trace:
        if c.ndim == 2 and c.shape[1] == 2 and len(c) > 1 and len(set(c[:, 1].tolist())) == 1:
            t_end = int(c[0, 1])
            if t_end >= 2 * msl and len(c) < 1 + max(0, t_end - 2 * msl + 1):
                pruned = True
                break
    if pruned:
        ctx.stat("cases_with_pruned_start")
    if scores.shape != (n,):
        ctx.violation(sub, "score-shape", f"{label}: scores shape {scores.shape}", r)
        return
    ts = np.arange(msl, n + 1)
    ctx.stat("prefix_scores_compared", len(ts))
    bad = ts[np.abs(scores[ts - 1] - F[ts]) > tol]
    if bad.size:
        t = int(bad[0])
        ctx.violation(sub, "prefix-optimum", f"{label}: score of prefix X[0:{t}] is {scores[t - 1]} but "
                      f"the optimal penalised cost is {F[t]} (penalty {beta}; {bad.size} prefixes differ)",
                      r, {"t": t})
    cp = [int(c) for c in y["ilocs"].tolist()] if "ilocs" in getattr(y, "columns", []) else None
    if cp is None:
        ctx.violation(sub, "output-format", f"{label}: no ilocs column", r)
        return
    edges = [0] + cp + [n]
    seg = np.diff(edges)
    if np.any(seg < msl) or sorted(cp) != cp:
        ctx.violation(sub, "short-segment", f"{label}: changepoints {cp} leave a segment shorter than "
                      f"min_segment_length={msl}", r)
    else:
        total = sum(C[a, b] for a, b in zip(edges[:-1], edges[1:])) + beta * len(cp)
        if abs(total - F[n]) > tol:
            ctx.violation(sub, "not-a-minimiser", f"{label}: returned changepoints {cp} cost {total} "
                          f"(incl. penalty {beta} x {len(cp)}) but the optimum is {F[n]}", r)
        if abs(total - scores[-1]) > tol:
            ctx.violation(sub, "final-score", f"{label}: final score {scores[-1]} != penalised cost "
                          f"{total} of the returned segmentation {cp}", r)
    # the scores must follow the CURRENT fit: refit the same detector on data of another length
    # (another penalty), then ask for the scores of the very same object X again
    if not exhaustive and n >= 4:
        try:
            X2 = np.vstack([X, X[: max(2 * msl, n // 2)]]).astype(float)
            det.fit(X2)
            beta2 = float(det.penalty_)
            s2 = np.asarray(det.transform_scores(X), dtype=float).ravel()
            F2 = reference_op(C, n, msl, beta2)
            ctx.stat("refit_then_scores")
            bad2 = ts[np.abs(s2[ts - 1] - F2[ts]) > _tol(C, n, beta2)]
            if bad2.size:
                t = int(bad2[0])
                ctx.violation(sub, "scores-after-refit", f"{label}: after refitting on {len(X2)} samples "
                              f"(penalty {beta2}) transform_scores(X) reports {s2[t - 1]} for prefix X[0:{t}] "
                              f"but the optimal penalised cost is {F2[t]} (stale scores of the earlier fit?)", r)
        except RuntimeError:
            pass
        except Exception as ex:
            ctx.violation(sub, "exception", f"{label}: refit/transform_scores raised {type(ex).__name__}: {ex}", r)
    if not exhaustive:
        if pruned and len(cp) >= 1 and n >= 3 * msl:
            ctx.nt(digest([spec, r["X"]]))
        ctx.sample({"case": label, "changepoints": cp, "final_score": float(scores[-1]),
                    "pruned_start_seen": pruned}, cap=3)
    elif len(cp) >= 1:
        ctx.nt(digest([spec, r["X"]]))


def direct_case(ctx, r):
    """The module-level kernel run_pelt(X, cost, penalty, min_segment_length) driven directly, with
    integer-typed and float penalties (the detector only ever passes np.float64)."""
    try:
        from skchange.change_detectors.pelt import run_pelt
    except ImportError:
        ctx.stat("direct_kernel_not_found")
        return

    X = np.asarray(r["X"], dtype=float)
    n, p = X.shape
    msl = r["msl"]
    pen = {"int": int, "npint": np.int64, "float": float}[r["pen_type"]](r["penalty"])
    sub = "run_pelt-direct"
    ctx.case()
    ctx.stat("direct_run_pelt_cases")
    ctx.stat(f"direct_penalty_type[{r['pen_type']}]")
    label = f"run_pelt(X[{n}x{p}], {short(r['cost'])}, penalty={pen!r} ({r['pen_type']}), msl={msl})"
    try:
        scores, cpts = run_pelt(X, build(r["cost"]), pen, msl)
        C, lo = cost_table(r["cost"], X, msl)
    except TypeError as ex:
        if "argument" in str(ex):  # the kernel's signature is not part of the property
            ctx.stat("direct_kernel_signature_changed")
            return
        ctx.violation(sub, "exception", f"{label}: {type(ex).__name__}: {ex}", r)
        return
    except Exception as ex:
        ctx.violation(sub, "exception", f"{label}: {type(ex).__name__}: {ex}", r)
        return
    if not split_inequality_ok(C, n, lo):
        ctx.stat("premise_failed_discarded")
        return
    F = reference_op(C, n, msl, float(pen))
    tol = _tol(C, n, float(pen))
    scores = np.asarray(scores, dtype=float)
    ts = np.arange(msl, n + 1)
    bad = ts[np.abs(scores[ts - 1] - F[ts]) > tol]
    if bad.size:
        t = int(bad[0])
        ctx.violation(sub, "prefix-optimum", f"{label}: score of prefix X[0:{t}] is {scores[t - 1]} but the "
                      f"optimal penalised cost is {F[t]}", r)
        return
    cp = [int(c) for c in cpts]
    edges = [0] + cp + [n]
    if np.any(np.diff(edges) < msl):
        ctx.violation(sub, "short-segment", f"{label}: changepoints {cp}", r)
        return
    total = sum(C[a, b] for a, b in zip(edges[:-1], edges[1:])) + float(pen) * len(cp)
    if abs(total - F[n]) > tol:
        ctx.violation(sub, "not-a-minimiser", f"{label}: returned changepoints {cp} cost {total}, "
                      f"optimum {F[n]}", r)
    if len(cp) >= 1:
        ctx.nt(digest(["direct", r["cost"], msl, r["penalty"], r["pen_type"], r["X"]]))


def make_direct_recipe(rng, tier):
    p = int(rng.integers(1, 3))
    msl = int(rng.integers(1, 5))
    n = int(rng.integers(2 * msl, 45))
    X, _ = gen_data(rng, n, p, ["weak_changes", "mean_changes", "noise", "small_alphabet"][int(rng.integers(4))])
    cost = [S("L2Cost", param=None), S("L1Cost", param=None, weight=1.0),
            S("ClosureTableCost", seed=int(rng.integers(10 ** 6)), maxinc=2, zero_prob=0.5)][int(rng.integers(3))]
    return {"direct": True, "cost": cost, "msl": msl, "X": X, "penalty": int(rng.integers(0, 6)),
            "pen_type": ["int", "npint", "float"][int(rng.integers(3))]}


def exhaustive_jobs(tier):
    nmax = 6 if tier == "quick" else 9
    costs = [S("L2Cost", param=None)] + ([S("ModeCost", param=None)] if tier == "thorough" else [])
    for cost in costs:
        for n in range(2, nmax + 1):
            for msl in (1, 2, 3):
                if n < 2 * msl:
                    continue
                for beta in (0.0, 0.5, 1.0, 2.0):
                    yield cost, n, msl, beta


def run(ctx):
    I.install()
    for _ in range(CASES[ctx.tier]):
        exec_case(ctx, make_recipe(ctx.rng, ctx.tier))
    for _ in range(CASES[ctx.tier] // 3):
        direct_case(ctx, make_direct_recipe(ctx.rng, ctx.tier))
    k = 0
    for cost, n, msl, beta in exhaustive_jobs(ctx.tier):
        scale = beta / (2 * np.log(n))
        for seq in itertools.product((0.0, 1.0, 2.0), repeat=n):
            k += 1
            if k % ctx.nshards != ctx.shard:
                continue
            exec_case(ctx, {"cost": cost, "msl": msl, "scale": scale, "X": [[v] for v in seq],
                            "data_kind": "ternary"}, exhaustive=True)


def replay(ctx, sub, recipe):
    I.install()
    if recipe.get("direct"):
        direct_case(ctx, recipe)
    else:
        exec_case(ctx, recipe)
