"""C08 - moving window: symmetric two-sided scores and peak-of-run detections."""
import numpy as np

from vf import history as H
from vf import instrument as I
from vf.core import CaseTimeout, digest, time_limit
from vf.gen import gen_data
from vf.spec import S, build, short
from vf.zoo import mw

SHARDS = {"quick": 16, "thorough": 16}
WATCHDOG = {"quick": 1800, "thorough": 10800}
CASES = {"quick": 250, "thorough": 1500}
FLOORS = {
    "quick": {"long_series_cases": 2, "distinct_nontrivial": 1100, "score_positions_checked": 56000, "runs_checked": 3700,
              "reversal_pairs": 1100, "cases[bandwidth=1]": 160, "runs_below_min_detection_interval": 220,
              "cases[n==2*bandwidth]": 130},
    "thorough": {"distinct_nontrivial": 4000, "score_positions_checked": 500000},
}
ANCHORS = [
    "skchange.change_detectors.moving_window.moving_window_transform",
    "skchange.change_detectors.moving_window.get_moving_window_changepoints",
    "skchange.utils.numba.general.where",
    "skchange.change_detectors.moving_window.MovingWindow._tune_threshold",
]
LEVEL = "exploration"
RULE = (
    "case = MovingWindow(change score in {default, CUSUM, L2Cost, GaussianVarCost, ChangeScore(L1Cost), "
    "integer HashChangeScore}, bandwidth 1..8, min_detection_interval in the range accepted by both "
    "documentation and constructor, threshold 0..2 or tuned) on seeded data, n from 2b to 70 (300). "
    "Oracle: transform_scores[t] == column-summed change score of (t-b, t, t+b) from a FRESH clone for "
    "b<=t<=n-b and exactly 0 elsewhere; predicted changepoints == a maximiser of each maximal run of "
    ">= min_detection_interval positions with score > threshold_ (runs computed from the reported "
    "scores; exact ties accept any maximiser); metamorphic reversal pair score_rev[t] == score[n-t] "
    "and changepoints mapped t -> n-t (discrete outputs compared only when all margins exceed the "
    "rounding width). Non-trivial = >=1 run above threshold; for reversal, asymmetric score profile; "
    "distinct by recipe digest."
)
ASSUMPTIONS = ["reversal is examined for data-driven built-in scores only (a hash score has no symmetry)",
               "reversal tolerance: data-dependent width of DESIGN s2 (c12.safe_width); ill-conditioned cases skipped and counted"]


def make_recipe(rng, tier):
    p = int(rng.integers(1, 4))
    spec, nmin = mw(rng, p, dense_events=bool(rng.random() < 0.8))
    from vf.zoo import _no_negative_tuned_threshold

    spec = _no_negative_tuned_threshold(spec)
    nmax = 70 if tier == "quick" else (300 if rng.random() < 0.05 else 110)
    n = nmin if rng.random() < 0.06 else int(rng.integers(nmin, max(nmin + 1, nmax)))
    kind = ["mean_changes", "weak_changes", "noise", "small_alphabet", "piecewise_const", "spikes",
            "var_changes", "dyadic", "ramp", "flat", "steps"][int(rng.integers(11))]
    X, _ = gen_data(rng, n, p, kind, boundary=spec["kw"]["bandwidth"])
    int_dtype = bool(rng.random() < 0.15)
    if int_dtype:
        X = np.round(2 * X)
    elif rng.random() < 0.2:
        X = X * float(rng.choice([1e-3, 1e-5, 1e-7]))  # the same signal in a small unit of measurement
    return {"det": spec, "X": X, "data_kind": kind, "int_dtype": int_dtype, "history": H.pick(rng),
            "hseed": int(rng.integers(2 ** 31)), "frame": "df" if rng.random() < 0.5 else None}


def long_recipe(rng):
    """A long series (thousands of admissible positions): one transform over far more splits than the short cases
    produce (block-wise / chunked evaluation paths).  Regenerated from the seed; the recipe stays small."""
    from vf.spec import S

    n = int(rng.integers(4300, 9800))
    b = int(rng.integers(3, 40))
    cs = [None, S("L2Cost", param=None), S("CUSUM")][int(rng.integers(3))]
    spec = S("MovingWindow", change_score=cs, bandwidth=b, threshold_scale=1.0, level=0.01, min_detection_interval=1)
    return {"det": spec, "long": {"n": n, "p": int(rng.integers(1, 3)), "seed": int(rng.integers(2 ** 31))},
            "data_kind": "long", "int_dtype": False, "history": None, "hseed": 0, "frame": None}


def _long_data(d):
    rng = np.random.default_rng(d["seed"])
    X = rng.standard_normal((d["n"], d["p"]))
    X[int(d["n"] * rng.uniform(0.93, 0.99)):] += 3.0   # a strong change near the end of the series
    X[int(d["n"] * rng.uniform(0.2, 0.8)):] += 2.0
    return X


def fresh_score(spec_cs, X):
    from skchange.change_scores import CUSUM, to_change_score

    cs = build(spec_cs)
    return to_change_score(CUSUM() if cs is None else cs).fit(X)


def runs_above(scores, thr):
    above = scores > thr
    runs, start = [], None
    for i, a in enumerate(above):
        if a and start is None:
            start = i
        elif not a and start is not None:
            runs.append((start, i))
            start = None
    if start is not None:
        runs.append((start, len(scores)))
    return runs


def exec_case(ctx, r):
    X = _long_data(r["long"]) if r.get("long") else np.asarray(r["X"], dtype=float)
    if r.get("long"):
        ctx.stat("long_series_cases")
    if r.get("int_dtype"):
        X = X.astype(np.int64)  # the same numbers passed with an integer dtype
    n, p = X.shape
    spec = r["det"]
    kw = spec["kw"]
    b, mdi = kw["bandwidth"], kw["min_detection_interval"]
    ctx.case()
    if r.get("int_dtype"):
        ctx.stat("cases[int64 data]")
    if b == 1:
        ctx.stat("cases[bandwidth=1]")
    if n == 2 * b:
        ctx.stat("cases[n==2*bandwidth]")
    label = f"{short(spec)} X[{n}x{p}] data={r['data_kind']}"
    sub = "moving-window"
    I.drain()
    try:
        with time_limit(60):
            # the judged calls come after a history (vf/history.py); Xarg holds exactly X's values
            det, Xarg = H.prepare(build(spec), X, r.get("history"), r.get("hseed", 0), 2 * b, r.get("frame"))
            scores = np.asarray(det.transform_scores(Xarg), dtype=float).ravel()
            y = det.predict(Xarg)
            ctx.stat(f"history[{r.get('history')}]")
    except CaseTimeout:
        ctx.stat("case_timeouts")
        return
    except RuntimeError as ex:
        if "GaussianCovCost" in short(spec) and "positive definite" in str(ex):
            ctx.stat("documented_runtimeerror")  # permitted outcome for a singular slice covariance
            return
        ctx.violation(sub, "exception", f"{label}: {type(ex).__name__}: {ex}", r)
        return
    except Exception as ex:
        ctx.violation(sub, "exception", f"{label}: {type(ex).__name__}: {ex}", r)
        return
    thr = float(det.threshold_)
    if scores.shape != (n,):
        ctx.violation(sub, "score-shape", f"{label}: scores shape {scores.shape}", r)
        return
    cs = fresh_score(kw["change_score"], X.astype(float))
    ts = np.arange(b, n - b + 1)
    want = np.zeros(n)
    want[ts] = cs.evaluate(np.column_stack((ts - b, ts, ts + b))).sum(axis=1)
    tol = 1e-9 * np.abs(want).max() + 1e-300  # purely relative: scores scale with the data's unit
    ctx.stat("score_positions_checked", n)
    inside = np.zeros(n, dtype=bool)
    inside[ts] = True
    if np.any(scores[~inside] != 0):
        t = int(np.flatnonzero((scores != 0) & ~inside)[0])
        ctx.violation(sub, "nonzero-outside", f"{label}: score at t={t} is {scores[t]}, not 0, outside "
                      f"[{b}, {n - b}]", r)
    bad = np.flatnonzero(np.abs(scores - want) > tol)
    if bad.size:
        t = int(bad[0])
        ctx.violation(sub, "window-score", f"{label}: score at t={t} is {scores[t]} but the change score "
                      f"between X[{t - b}:{t}] and X[{t}:{t + b}] is {want[t]} ({bad.size} positions differ)",
                      r, {"t": t})
        return
    cp = [int(c) for c in y["ilocs"].tolist()]
    # runs are formed over the positions where a score is defined, b <= t <= n-b: the zero filler
    # outside is not a score (it only matters for a tuned threshold that is negative by rounding
    # error; reading in DESIGN s7)
    runs = [(a + b, e + b) for a, e in runs_above(scores[b:n - b + 1], thr)]
    if thr < 0:
        ctx.stat("cases[negative tuned threshold]")
    kept = [(a, e) for a, e in runs if e - a >= mdi]
    ctx.stat("runs_checked", len(runs))
    ctx.stat("runs_below_min_detection_interval", len(runs) - len(kept))
    ok = len(cp) == len(kept)
    if ok:
        for c, (a, e) in zip(cp, kept):
            if not (a <= c < e) or scores[c] != scores[a:e].max():
                ok = False
    if not ok:
        want_cp = [int(a + np.argmax(scores[a:e])) for a, e in kept]
        ctx.violation(sub, "peak-of-run", f"{label}: predicted changepoints {cp} != peak positions "
                      f"{want_cp} of the runs {kept} of >= {mdi} scores above {thr}", r)
    for h in I.drain():
        if h["contract"] == "K1":
            ctx.violation("contract-K1", "malformed", f"{label}: {h['message']}", r)

    # ---- reversal pair ---------------------------------------------------------------------
    cs_spec = kw["change_score"]
    data_driven = cs_spec is None or cs_spec["cls"] != "HashChangeScore"
    if data_driven:
        try:
            Xr = X[::-1].copy()
            dr = build(spec).fit(Xr)
            sr = np.asarray(dr.transform_scores(Xr), dtype=float).ravel()
            yr = [int(c) for c in dr.predict(Xr)["ilocs"].tolist()]
        except Exception as ex:
            if isinstance(ex, RuntimeError) and "GaussianCovCost" in short(spec) and "positive definite" in str(ex):
                # a slice covariance that is singular up to rounding: the documented error may be
                # raised for one summation order and not for the other
                ctx.stat("documented_runtimeerror")
                return
            ctx.violation(sub, "exception", f"{label}: reversed series raised {type(ex).__name__}: {ex}", r)
            return
        ctx.stat("reversal_pairs")
        from vf.checks.c12 import safe_width

        # data-dependent rounding width (DESIGN s2): short Gaussian windows with nearly equal
        # values are ill-conditioned and must not be judged with a fixed relative tolerance
        rtol = safe_width(spec, X.astype(float), Xr.astype(float), float(np.abs(want).max()))
        if rtol is None:
            ctx.stat("ill_conditioned_skipped")
            if kept:
                ctx.nt(digest([spec, r.get("long") or r["X"]]))
            return
        mirrored = np.zeros(n)
        mirrored[ts] = scores[n - ts]
        if np.any(np.abs(sr - mirrored) > rtol):
            t = int(np.flatnonzero(np.abs(sr - mirrored) > rtol)[0])
            ctx.violation(sub, "reversal-scores", f"{label}: reversed series scores {sr[t]} at t={t} but "
                          f"the original scores {scores[n - t]} at n-t={n - t}", r)
        elif kw["threshold_scale"] is not None and r.get("history") != "fit_other":
            # discrete outputs only where every decision margin exceeds the rounding width
            margin_ok = np.all(np.abs(scores[ts] - thr) > 10 * rtol)
            for a, e in kept:
                seg = np.sort(scores[a:e])
                if len(seg) > 1 and seg[-1] - seg[-2] <= 10 * rtol:
                    margin_ok = False
            if margin_ok:
                ctx.stat("reversal_changepoints_compared")
                if sorted(n - c for c in yr) != cp:
                    ctx.violation(sub, "reversal-changepoints", f"{label}: reversed series gives "
                                  f"changepoints {yr} (mirrored {sorted(n - c for c in yr)}) != {cp}", r)
            else:
                ctx.stat("near_tie_skipped")
    if kept:
        ctx.nt(digest([spec, r.get("long") or r["X"]]))
    ctx.sample({"case": label, "threshold": thr, "runs": runs[:6], "changepoints": cp}, cap=3)


def run(ctx):
    I.install()
    for _ in range(CASES[ctx.tier]):
        exec_case(ctx, make_recipe(ctx.rng, ctx.tier))
    if ctx.shard < 4:  # four long series per quick run
        for _ in range(1 if ctx.tier == "quick" else 3):
            exec_case(ctx, long_recipe(ctx.rng))


def replay(ctx, sub, recipe):
    I.install()
    exec_case(ctx, recipe)
