"""C12 - detections respect the model's symmetries: permutation, shift, scale, reversal."""
import numpy as np

from vf import instrument as I
from vf.core import CaseTimeout, digest, time_limit
from vf.gen import gen_data
from vf.models import costs as M
from vf.models import scores as SM
from vf.scorers import SCORER_NAMES, desc_from_spec, make_scorer
from vf.spec import S, build, short

SHARDS = {"quick": 16, "thorough": 16}
WATCHDOG = {"quick": 1800, "thorough": 10800}
CASES = {"quick": 70, "thorough": 900}
FLOORS = {
    "quick": {"scorer_pairs_single_row": 392, "scorer_pairs_regular_unequal_parts": 495, "distinct_nontrivial": 3500, "scorer_pairs": 1500, "detector_pairs": 2200,
              "pairs[permute]": 820, "pairs[shift]": 370, "pairs[scale]": 200, "pairs[reverse]": 2300,
              "discrete_outputs_compared": 350},
    "thorough": {"distinct_nontrivial": 5000, "scorer_pairs": 15000, "detector_pairs": 8000},
}
ANCHORS = [
    "skchange.change_scores.cusum.cusum_score",
    "skchange.costs.l2_cost.l2_cost_optim",
    "skchange.costs.gaussian_var_cost.gaussian_var_cost_optim",
    "skchange.costs.gaussian_cov_cost.gaussian_cov_cost_optim",
    "skchange.anomaly_detectors.mvcapa.penalise_savings",
    "skchange.anomaly_detectors.mvcapa.find_affected_components",
    "skchange.change_detectors.moving_window.moving_window_transform",
    "skchange.change_detectors.pelt.run_pelt",
]
LEVEL = "exploration"
RULE = (
    "metamorphic pairs (X, T(X)) for T in {column permutation, per-column shift, positive scaling, "
    "time reversal}. Scorer level (19 built-in scorer kinds, n<=40, p 2..5): per-column outputs "
    "permuted / multivariate unchanged; change and local anomaly scores of optimal-parameter costs "
    "and CUSUM unchanged by shifts; Gaussian versions unchanged by scaling; costs, change scores and "
    "local scores mapped to the mirrored cuts by reversal -- compared within the sum of the two "
    "model interval widths (DESIGN s2). Detector level (n<=60/200): permutation for PELT, MW, SBS, "
    "CBS, CAPA, MVCAPA (columns mapped); shift for PELT/MW/SBS/CBS with optimal-parameter costs or "
    "CUSUM; scaling for their Gaussian versions; reversal: PELT's optimal penalised cost. PELT/CAPA: "
    "value equality of the penalised objective; threshold detectors: continuous scores within the "
    "width, discrete outputs compared exactly and a difference is reported only when every decision "
    "margin read from the reported scores (gap to the threshold, gaps between competing scores) "
    "exceeds the width, else near_tie_skipped. Non-trivial = >=1 detection (detector pairs) or "
    "interior cut (scorer pairs) and a non-identity transformation; distinct by (recipe, T)."
)
ASSUMPTIONS = ["shifts in [-100,100], scales in [1e-2,1e2], data with unit-order noise",
               "width for detector scores: 1e-6*(1+max|score|)"]


# ---------------------------------------------------------------------------- scorers
def transform_data(X, T):
    kind = T["kind"]
    if kind == "permute":
        return X[:, T["perm"]]
    if kind == "shift":
        return X + np.asarray(T["shift"])
    if kind == "scale":
        return X * T["scale"]
    if kind == "reverse":
        return X[::-1].copy()
    raise KeyError(kind)


def random_T(rng, kind, p):
    if kind == "permute":
        perm = rng.permutation(p)
        while p > 1 and np.all(perm == np.arange(p)):
            perm = rng.permutation(p)
        return {"kind": kind, "perm": perm.tolist()}
    if kind == "shift":
        return {"kind": kind, "shift": np.round(rng.uniform(-100, 100, size=p), 2).tolist()}
    if kind == "scale":
        return {"kind": kind, "scale": float(np.exp(rng.uniform(np.log(1e-2), np.log(1e2))).round(4))}
    return {"kind": "reverse"}


def applicable(desc, kind):
    t = desc[0]
    optimal = len(desc) < 3 or desc[2] is None
    if kind == "permute":
        return True
    if kind == "reverse":
        return t in ("cost", "cusum", "change", "local")
    if kind == "shift":
        return t == "cusum" or (t in ("change", "local") and optimal)
    if kind == "scale":
        return t in ("change", "local") and optimal and desc[1] in ("GaussianVarCost", "GaussianCovCost")
    return False


def permute_spec(spec, perm):
    """The same scorer expressed for permuted columns (per-column fixed parameters follow their column)."""
    import copy

    spec = copy.deepcopy(spec)

    def fix(node):
        if isinstance(node, dict):
            if "nd" in node:
                a = np.array(node["nd"])
                if a.ndim == 1 and a.size == len(perm):
                    node["nd"] = a[perm].tolist()
                elif a.ndim == 2 and a.shape == (len(perm), len(perm)):
                    node["nd"] = a[np.ix_(perm, perm)].tolist()
            else:
                for v in node.values():
                    fix(v)
        elif isinstance(node, list):
            for v in node:
                fix(v)

    fix(spec)
    return spec


def scorer_case(ctx, r):
    X = np.asarray(r["X"], dtype=float)
    n, p = X.shape
    spec, T = r["spec"], r["T"]
    kind = T["kind"]
    desc = desc_from_spec(spec)
    if not applicable(desc, kind):
        return
    ctx.case()
    ctx.stat("scorer_pairs")
    ctx.stat(f"pairs[{kind}]")
    rng = np.random.default_rng(r["sub_seed"])
    k = SM.n_cut_entries(desc)
    ms = SM.base_min_size(desc, p)
    cuts = []
    for _ in range(400):
        c = tuple(sorted(rng.choice(n + 1, size=k, replace=False).tolist()))
        if SM.cut_is_valid(desc, c, n, p):
            cuts.append(c)
        if len(cuts) >= 30:
            break
    if not cuts:
        return
    if r.get("one_outer") and k == 4:
        s0, e0 = (0, n) if rng.random() < 0.5 else (cuts[0][0], cuts[0][3])
        same_outer = [c for c in ((s0, a, b, e0) for a in range(s0 + 1, e0) for b in range(a + 1, e0))
                      if SM.cut_is_valid(desc, c, n, p)]
        if same_outer:
            idx = rng.choice(len(same_outer), size=min(20, len(same_outer)), replace=False)
            cuts = [same_outer[int(i)] for i in idx]
    cuts = np.array(cuts, dtype=np.int64)
    # batch shape: random rows, or a *regular* batch as a detector would ask for it -- a window of constant
    # (generally unequal) part sizes slid over the series, possibly a single row
    shape = int(rng.integers(4))
    if shape >= 2:
        from vf.core import regular_subbatches

        d0 = np.diff(cuts[int(rng.integers(len(cuts)))])
        span = int(d0.sum())
        win = [tuple(int(v) for v in np.concatenate(([t], t + np.cumsum(d0)))) for t in range(0, n - span + 1)]
        win = [c for c in win if SM.cut_is_valid(desc, c, n, p)]
        if win:
            if shape == 3:
                win = [win[int(rng.integers(len(win)))]]
            elif len(win) > 30:
                win = [win[int(i)] for i in np.sort(rng.choice(len(win), size=30, replace=False))]
            cuts = np.array(win, dtype=np.int64)
            ctx.stat("scorer_pairs_sliding_window" if shape == 2 else "scorer_pairs_single_row")
            if len(set(np.diff(cuts[0]).tolist())) > 1:
                ctx.stat("scorer_pairs_regular_unequal_parts")
    X2 = transform_data(X, T)
    spec2 = permute_spec(spec, T["perm"]) if kind == "permute" else spec
    label = f"{short(spec)} X[{n}x{p}] T={T}"
    sub = f"scorer-{kind}"
    side = "X"
    try:
        sc1 = build(spec).fit(X)
        v1 = sc1.evaluate(cuts)
        side = "T(X)"
        cuts2 = (n - cuts[:, ::-1]) if kind == "reverse" else cuts
        if r.get("reuse") and spec2 == spec:
            # the SAME object re-fitted on T(X): nothing of the first fit may survive
            ctx.stat("scorer_pairs_same_object")
            v2 = sc1.fit(X2).evaluate(cuts2)
        else:
            v2 = build(spec2).fit(X2).evaluate(cuts2)
    except RuntimeError as ex:
        # The documented error of the multivariate Gaussian cost: permitted when the sample covariance of some
        # evaluated slice is singular up to rounding.  Singularity is a property of the *shape* of the data, not of
        # their unit: when every slice (of X and of T(X)) is well conditioned and only the transformed member
        # raises, the transformation changed the outcome.
        def worst_cond(A, cc):
            w = 1.0
            for row in cc:
                for a, b in zip(row[:-1], row[1:]):
                    seg = A[a:b]
                    if len(seg) > A.shape[1]:
                        ev = np.linalg.eigvalsh(np.cov(seg, rowvar=False, ddof=0).reshape(A.shape[1], -1))
                        w = max(w, np.inf if ev.min() <= 0 else ev.max() / ev.min())
                if len(row) == 4:  # pooled surroundings of a local score
                    seg = np.concatenate((A[row[0]:row[1]], A[row[2]:row[3]]))
                    if len(seg) > A.shape[1]:
                        ev = np.linalg.eigvalsh(np.cov(seg, rowvar=False, ddof=0).reshape(A.shape[1], -1))
                        w = max(w, np.inf if ev.min() <= 0 else ev.max() / ev.min())
                seg = A[row[0]:row[-1]]
                ev = np.linalg.eigvalsh(np.cov(seg, rowvar=False, ddof=0).reshape(A.shape[1], -1))
                w = max(w, np.inf if ev.min() <= 0 else ev.max() / ev.min())
            return w

        if side == "T(X)" and "GaussianCovCost" in str(spec) and kind in ("scale", "shift", "permute", "reverse"):
            c2 = (n - cuts[:, ::-1]) if kind == "reverse" else cuts
            wc = max(worst_cond(X, cuts), worst_cond(X2, c2))
            if wc < 1e6:
                ctx.violation(sub, "one-sided-runtimeerror", f"{label}: evaluate succeeded on X but raised on T(X) "
                              f"({ex}) although every evaluated slice is well conditioned (worst condition number "
                              f"{wc:.3g})", r)
                return
        ctx.stat("documented_runtimeerror")
        return
    except Exception as ex:
        ctx.violation(sub, "exception", f"{label}: {type(ex).__name__}: {ex}", r)
        return
    want = v1[:, T["perm"]] if (kind == "permute" and v1.shape[1] == p and p > 1
                                and getattr(build(spec), "evaluation_type", "univariate") == "univariate") else v1
    # width: both members' model intervals (the worse-conditioned member dominates)
    tol1, tol2 = M.DataTol(X), M.DataTol(X2)
    desc2 = desc_from_spec(spec2)
    for i in range(len(cuts)):
        iv1 = SM.score_interval(desc, X, tol1, tuple(int(c) for c in cuts[i]))
        iv2 = SM.score_interval(desc2, X2, tol2, tuple(int(c) for c in cuts2[i]))
        if iv1 is None or iv2 is None:
            ctx.stat("singular_skipped")
            continue
        w1, w2 = iv1[1] - iv1[0], iv2[1] - iv2[0]
        if kind == "permute" and w1.shape == (p,) and want is not v1:
            w1 = w1[T["perm"]]
        w = np.max(w1) + np.max(w2) + 1e-12 * (1 + np.abs(want[i]).max())
        if v2.shape != want.shape or np.any(np.abs(v2[i] - want[i]) > w):
            ctx.violation(sub, "relation", f"{label}: cut {cuts[i].tolist()}: value {v1[i].tolist()} on X "
                          f"but {v2[i].tolist()} on T(X) at {cuts2[i].tolist()} (expected "
                          f"{want[i].tolist()}, width {w:.3g})", r)
            break
    if np.any((cuts[:, 0] > 0) & (cuts[:, -1] < n)):
        ctx.nt(digest([spec, r["X"], T]))


# --------------------------------------------------------------------------- detectors
def det_spec(rng, name, p, gaussian=False):
    """Configurations whose documented symmetries apply (optimal-parameter costs / CUSUM)."""
    scale = float(rng.choice([0.05, 0.2, 0.5, 1.0, 2.0]))
    if name == "PELT":
        cost = S("GaussianVarCost", param=None) if gaussian else [None, S("L2Cost", param=None)][int(rng.integers(2))]
        msl = int(rng.integers(2 if gaussian else 1, 5))
        return S("PELT", cost=cost, penalty_scale=scale, min_segment_length=msl), 2 * msl
    if name == "MovingWindow":
        cs = S("GaussianVarCost", param=None) if gaussian else [None, S("CUSUM"), S("L2Cost", param=None)][int(rng.integers(3))]
        b = int(rng.integers(2 if gaussian else 1, 8))
        return S("MovingWindow", change_score=cs, bandwidth=b, threshold_scale=scale, level=0.01,
                 min_detection_interval=1), 2 * b
    if name == "SeededBinarySegmentation":
        cs = S("GaussianVarCost", param=None) if gaussian else [None, S("CUSUM"), S("L2Cost", param=None)][int(rng.integers(3))]
        msl = int(rng.integers(2 if gaussian else 1, 5))
        return S("SeededBinarySegmentation", change_score=cs, threshold_scale=scale, level=0.01,
                 min_segment_length=msl, max_interval_length=int(rng.integers(2 * msl, 50)),
                 growth_factor=float(rng.choice([1.3, 1.5, 2.0]))), 2 * msl
    if name == "CircularBinarySegmentation":
        sc = S("GaussianVarCost", param=None) if gaussian else [None, S("L2Cost", param=None)][int(rng.integers(2))]
        msl = int(rng.integers(2 if gaussian else 1, 4))
        return S("CircularBinarySegmentation", anomaly_score=sc, threshold_scale=scale, level=0.01,
                 min_segment_length=msl, max_interval_length=int(rng.integers(2 * msl, 20)),
                 growth_factor=float(rng.choice([1.5, 2.0]))), 2 * msl
    if name == "CAPA":
        m = int(rng.integers(2, 5))
        return S("CAPA", collective_saving=[None, S("L2Cost", param=0.0)][int(rng.integers(2))],
                 collective_penalty_scale=scale, point_penalty_scale=scale, min_segment_length=m,
                 max_segment_length=int(rng.integers(m, 30))), m
    if name == "MVCAPA":
        m = int(rng.integers(2, 5))
        pens = ["dense", "sparse", "combined", "intermediate", {"fn": "pen_decreasing_betas"},
                {"fn": "pen_increasing_betas"}, {"fn": "pen_mixed"}]
        return S("MVCAPA", collective_penalty=pens[int(rng.integers(len(pens)))],
                 collective_penalty_scale=scale, point_penalty=pens[int(rng.integers(len(pens)))],
                 point_penalty_scale=float(rng.choice([0.05, 0.2, 0.5, 1.0])), min_segment_length=m,
                 max_segment_length=int(rng.integers(m, 30))), m
    raise KeyError(name)


def safe_width(spec, X, X2, scale_ref):
    """Absolute width that bounds the rounding difference of any score / objective the detector
    reports on X versus T(X) (DESIGN s2, made data dependent).  None = too ill-conditioned."""
    n, p = X.shape
    gaussian = "GaussianVarCost" in short(spec) or "GaussianCovCost" in short(spec)
    multivariate = "GaussianCovCost" in short(spec)
    eps = M.EPS
    w = 256 * n * eps * max((X ** 2).sum(), (X2 ** 2).sum()) + 1e-9 * (1 + scale_ref)
    if gaussian:
        kw = spec["kw"]
        m = kw.get("min_segment_length") or kw.get("bandwidth") or 2
        m = max(int(m), 2)
        worst = 0.0
        for Z in (X, X2):
            dv = 16 * n * eps * float((Z ** 2).max())
            if spec["cls"] == "CircularBinarySegmentation":
                # pooled surroundings join non-adjacent rows: every pooled set of k <= L rows holds a
                # pair (i, j), |i-j| <= L, and its variance is at least (x_i - x_j)^2 / (2k)
                L = min(int(kw.get("max_interval_length", n)), n)
                d2 = np.inf
                for lag in range(1, L):
                    if lag < n:
                        d2 = min(d2, float(((Z[lag:] - Z[:-lag]) ** 2).min()))
                vmin = d2 / (2 * L)
            elif multivariate:
                mm = max(m, p + 1)
                if n < mm:
                    return None
                win = np.lib.stride_tricks.sliding_window_view(Z, mm, axis=0)  # (n-mm+1, p, mm)
                c = win - win.mean(axis=2, keepdims=True)
                covs = np.einsum("wim,wjm->wij", c, c) / mm
                vmin = float(np.linalg.eigvalsh(covs).min())
            else:
                win = np.lib.stride_tricks.sliding_window_view(Z, m, axis=0)  # (n-m+1, p, m)
                vmin = float(win.var(axis=2).min())
            if vmin <= 0:
                return None
            worst = max(worst, p * n * n * dv / (m * vmin))
        w += worst
    if w > 1e-2 * (1 + scale_ref):
        return None
    return w


def run_det(spec, X, det=None):
    det = (build(spec) if det is None else det).fit(X)
    y = det.predict(X)
    out = {"y": y, "thr": getattr(det, "threshold_", None), "det": det}
    name = spec["cls"]
    if name == "MovingWindow":
        out["scores"] = np.asarray(det.transform_scores(X), dtype=float).ravel()
    elif name in ("SeededBinarySegmentation", "CircularBinarySegmentation"):
        out["table"] = det.scores.to_numpy(dtype=float)
    elif name in ("PELT", "CAPA", "MVCAPA"):
        out["scores"] = np.asarray(det.transform_scores(X), dtype=float).ravel()
    return out


def events(y):
    if "labels" in y.columns:
        a = y["ilocs"].array
        iv = list(zip(np.asarray(a.left).astype(int).tolist(), np.asarray(a.right).astype(int).tolist()))
        cols = [sorted(np.asarray(c).astype(int).tolist()) for c in y["icolumns"]] if "icolumns" in y.columns else None
        return iv, cols
    return [int(c) for c in y["ilocs"].tolist()], None


def near_tie(name, o1, o2, w):
    """True when some decision margin read from the reported scores is within the width."""
    thr = o1["thr"]
    if name == "MovingWindow":
        s = o1["scores"]
        if np.any(np.abs(s[s != 0] - thr) <= w):
            return True
        srt = np.sort(np.unique(np.round(s[s > thr] / (w + 1e-300)).astype(np.int64)))
        # competing maxima inside a run: any two scores above threshold closer than w
        above = np.sort(s[s > thr])
        return bool(above.size > 1 and np.min(np.diff(above)) <= w)
    t = o1["table"]
    sc = t[:, -1]
    if np.any(np.abs(sc - thr) <= w):
        return True
    above = np.sort(sc[sc > thr])
    if above.size > 1 and np.min(np.diff(above)) <= w:
        return True
    t2 = o2["table"]
    if t.shape == t2.shape and not np.array_equal(t[:, :-1], t2[:, :-1]):
        return True  # a within-row argmax moved: the two candidates tie within the width
    return False


def detector_case(ctx, r):
    X = np.asarray(r["X"], dtype=float)
    n, p = X.shape
    spec, T = r["det"], r["T"]
    name, kind = spec["cls"], T["kind"]
    ctx.case()
    ctx.stat("detector_pairs")
    ctx.stat(f"pairs[{kind}]")
    ctx.stat(f"det[{name}]")
    label = f"{short(spec)} X[{n}x{p}] T={T}"
    sub = f"detector-{kind}"
    X2 = transform_data(X, T)
    I.drain()
    try:
        with time_limit(120):
            o1 = run_det(spec, X)
            # half of the pairs run T(X) through the SAME detector object (refit, then predict)
            o2 = run_det(spec, X2, det=o1["det"] if r.get("reuse") else None)
    except CaseTimeout:
        ctx.stat("case_timeouts")
        return
    except Exception as ex:
        ctx.violation(sub, "exception", f"{label}: {type(ex).__name__}: {ex}", r)
        return
    I.drain()
    e1, c1 = events(o1["y"])
    e2, c2 = events(o2["y"])
    nt = len(e1) >= 1
    if kind == "reverse":
        # PELT's optimal penalised cost is unchanged
        f1, f2 = o1["scores"][-1], o2["scores"][-1]
        w = safe_width(spec, X, X2, abs(f1))
        if w is None:
            ctx.stat("ill_conditioned_skipped")
        elif abs(f1 - f2) > w:
            ctx.violation(sub, "pelt-optimal-cost", f"{label}: optimal penalised cost {f1} on X but {f2} "
                          f"on the reversed series", r)
    elif name in ("PELT", "CAPA", "MVCAPA"):
        # value equality of the penalised objective (margin-free); CAPA/PELT scores are prefix optima
        s1, s2 = o1["scores"], o2["scores"]
        if kind == "scale":
            # a Gaussian cost of t samples moves by t*log(c^2) per column; segmentations do not
            s2 = s2 - np.arange(1, n + 1) * p * np.log(T["scale"] ** 2)
        w = safe_width(spec, X, X2, float(np.abs(s1).max()))
        if w is None:
            ctx.stat("ill_conditioned_skipped")
            return
        lo = spec["kw"]["min_segment_length"] if name == "PELT" else 0
        if s1.shape != s2.shape or np.any(np.abs(s1[lo:] - s2[lo:]) > w):
            t = int(np.flatnonzero(np.abs(s1 - s2) > w)[-1]) if s1.shape == s2.shape else -1
            ctx.violation(sub, "objective", f"{label}: optimal objective of the prefix ending at {t} is "
                          f"{s1[t]} on X but {s2[t]} on T(X) (width {w:.3g})", r)
        elif e1 != e2:
            ctx.stat("discrete_differs_same_objective")  # another maximiser of the same value: accepted
        else:
            ctx.stat("discrete_outputs_compared")
            if name == "MVCAPA" and kind == "permute":
                perm = T["perm"]
                mapped = [sorted(perm[j] for j in cols) for cols in c2]  # column j of T(X) is X[:, perm[j]]
                if mapped != c1:
                    ctx.violation(sub, "mvcapa-columns", f"{label}: affected columns {c1} on X but "
                                  f"{c2} on the permuted data (mapped back {mapped})", r)
    else:
        if name == "MovingWindow":
            a, b = o1["scores"], o2["scores"]
        else:
            a, b = o1["table"][:, -1], o2["table"][:, -1]
        if a.size == 0 and b.size == 0:
            ctx.stat("empty_tables")
            return
        w = safe_width(spec, X, X2, float(np.abs(a).max()) if a.size else 0.0)
        if w is None:
            ctx.stat("ill_conditioned_skipped")
            return
        if a.shape != b.shape or np.any(np.abs(a - b) > w):
            ctx.violation(sub, "scores", f"{label}: reported scores differ between X and T(X) by "
                          f"{np.abs(a - b).max() if a.shape == b.shape else 'shape'} (width {w:.3g})", r)
        elif abs(o1["thr"] - o2["thr"]) > 1e-12 * (1 + abs(o1["thr"])):
            ctx.violation(sub, "threshold", f"{label}: threshold_ {o1['thr']} vs {o2['thr']}", r)
        elif e1 != e2:
            if near_tie(name, o1, o2, w):
                ctx.stat("near_tie_skipped")
            else:
                ctx.violation(sub, "detections", f"{label}: detections {e1} on X but {e2} on T(X) although "
                              f"all decision margins exceed the width {w:.3g}", r)
        else:
            ctx.stat("discrete_outputs_compared")
    if nt:
        ctx.nt(digest([spec, r["X"], T]))
    ctx.sample({"case": label, "detections_X": e1, "detections_TX": e2}, cap=3)


def exec_case(ctx, r):
    if r["kind"] == "scorer":
        scorer_case(ctx, r)
    else:
        detector_case(ctx, r)


def make_det_recipe(rng, tier):
    kind = ["permute", "permute", "shift", "shift", "scale", "reverse"][int(rng.integers(6))]
    gaussian = kind == "scale" or (kind == "shift" and rng.random() < 0.3)
    if kind == "permute":
        name = ["PELT", "MovingWindow", "SeededBinarySegmentation", "CircularBinarySegmentation", "CAPA",
                "MVCAPA", "MVCAPA", "MVCAPA"][int(rng.integers(8))]
    elif kind == "reverse":
        name = "PELT"
    else:
        name = ["PELT", "MovingWindow", "SeededBinarySegmentation", "CircularBinarySegmentation"][int(rng.integers(4))]
    p = int(rng.integers(2, 6)) if kind == "permute" else int(rng.integers(1, 4))
    spec, nmin = det_spec(rng, name, p, gaussian=gaussian)
    hi = 60 if tier == "quick" else (200 if rng.random() < 0.05 else 90)
    if name == "CircularBinarySegmentation":
        hi = 28
    n = int(rng.integers(max(nmin, 8), max(nmin, 8) + hi))
    dk = ["mean_changes", "weak_changes", "collective", "spikes", "var_changes", "noise"][int(rng.integers(6))]
    X, _ = gen_data(rng, n, p, dk)
    return {"kind": "detector", "det": spec, "X": X, "T": random_T(rng, kind, p),
            "reuse": bool(rng.random() < 0.5)}


def make_pelt_reversal_recipe(rng, tier):
    """Short noisy series, low penalties, min_segment_length >= 2: where PELT's pruning decisions are
    close, so that a scan-direction dependence of the optimum becomes visible."""
    p = int(rng.integers(1, 3))
    msl = int(rng.integers(2, 6))
    n = int(rng.integers(2 * msl + 2, 40))
    if rng.random() < 0.5:
        X = rng.integers(-3, 4, size=(n, p)).astype(float)
    else:
        X, _ = gen_data(rng, n, p, ["noise", "weak_changes", "small_alphabet"][int(rng.integers(3))])
    spec = S("PELT", cost=[None, S("L2Cost", param=None), S("GaussianVarCost", param=None)][int(rng.integers(3))],
             penalty_scale=float(rng.choice([0.0, 0.02, 0.05, 0.1, 0.3, 0.6])), min_segment_length=msl)
    if spec["kw"]["cost"] and spec["kw"]["cost"]["cls"] == "GaussianVarCost":
        X = X + 0.05 * rng.standard_normal(X.shape)
    return {"kind": "detector", "det": spec, "X": X, "T": {"kind": "reverse"}}


def make_scorer_recipe(rng, tier):
    name = SCORER_NAMES[int(rng.integers(len(SCORER_NAMES)))]
    p = int(rng.integers(2, 6))
    spec, _ = make_scorer(rng, name, p)
    n = int(rng.integers(3 * (p + 1), 40 if tier == "quick" else 120))
    X, _ = gen_data(rng, n, p, ["noise", "mean_changes", "var_changes", "heavy", "ramp"][int(rng.integers(5))])
    kind = ["permute", "shift", "scale", "reverse"][int(rng.integers(4))]
    return {"kind": "scorer", "spec": spec, "X": X, "T": random_T(rng, kind, p),
            "sub_seed": int(rng.integers(2 ** 31)), "reuse": bool(rng.random() < 0.5),
            "one_outer": bool(rng.random() < 0.3)}


def run(ctx):
    I.install()
    for _ in range(CASES[ctx.tier]):
        exec_case(ctx, make_det_recipe(ctx.rng, ctx.tier))
    for _ in range(CASES[ctx.tier] * 6):
        exec_case(ctx, make_scorer_recipe(ctx.rng, ctx.tier))
    for _ in range(CASES[ctx.tier] * 4):
        exec_case(ctx, make_pelt_reversal_recipe(ctx.rng, ctx.tier))


def replay(ctx, sub, recipe):
    I.install()
    exec_case(ctx, recipe)
