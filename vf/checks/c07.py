"""C07 - seeded binary segmentation reports exactly the greedy above-threshold splits."""
import numpy as np

from vf import history as H
from vf import instrument as I
from vf.core import CaseTimeout, digest, time_limit
from vf.gen import gen_data
from vf.models.greedy import greedy_outcomes
from vf.spec import S, build, short
from vf.zoo import sbs

SHARDS = {"quick": 16, "thorough": 16}
WATCHDOG = {"quick": 1800, "thorough": 10800}
CASES = {"quick": 90, "thorough": 1200}
FLOORS = {
    "quick": {"distinct_nontrivial": 320, "table_rows_checked": 61000, "greedy_compared": 490,
              "cases[max_interval_length==2*msl]": 140, "cases[n==2*msl]": 41, "tie_branches_explored": 20,
              "threshold_pairs": 450, "long_series_cases": 2, "table_rows_with_more_than_16384_splits": 2},
    "thorough": {"distinct_nontrivial": 2500, "table_rows_checked": 300000},
}
ANCHORS = [
    "skchange.change_detectors.seeded_binseg.make_seeded_intervals",
    "skchange.change_detectors.seeded_binseg.run_seeded_binseg",
    "skchange.change_detectors.seeded_binseg.greedy_changepoint_selection",
    "skchange.change_detectors.seeded_binseg.SeededBinarySegmentation._tune_threshold",
]
LEVEL = "exploration"
RULE = (
    "case = SeededBinarySegmentation(change score in {default, CUSUM, L2Cost, GaussianVarCost, "
    "ChangeScore(L1Cost), integer HashChangeScore}, threshold 0..5 or tuned, msl 1..5, "
    "max_interval_length from 2*msl (equality in 25%) upward incl. > n, growth_factor in (1,2]) on "
    "seeded data, n from 2*msl to 70 (300 thorough), p<=3. Oracle over the REPORTED table "
    "detector.scores: rows inside [0,n] with lengths in [2*msl, min(max_interval_length,n)], "
    "non-empty whenever n>=2*msl; each row's score == max and argmax_cpt is a maximiser of the "
    "column-summed change score over start+msl..end-msl recomputed with a FRESH clone; predicted "
    "changepoints == greedy selection over the reported table with threshold_ (all exact tie orders "
    "explored, cap 64 branches); every changepoint supported, no above-threshold row left without a "
    "changepoint inside; a raised threshold only removes changepoints. Non-trivial = >=2 rows above "
    "threshold and >=1 row discarded by containment; distinct by recipe digest."
)
ASSUMPTIONS = ["the seeded grid is constrained (bounds, non-emptiness), not pinned to particular starts",
               "thresholds >= 0 (negative tuned thresholds are outside the statement)"]


def make_recipe(rng, tier):
    p = int(rng.integers(1, 4))
    spec, nmin = sbs(rng, p, dense_events=bool(rng.random() < 0.7))
    from vf.zoo import _no_negative_tuned_threshold

    spec = _no_negative_tuned_threshold(spec)
    r = rng.random()
    nmax = 70 if tier == "quick" else (300 if rng.random() < 0.05 else 100)
    n = nmin if r < 0.06 else int(rng.integers(nmin, max(nmin + 1, nmax)))
    kind = ["mean_changes", "weak_changes", "noise", "small_alphabet", "piecewise_const", "spikes",
            "var_changes", "dyadic", "flat", "steps"][int(rng.integers(10))]
    X, _ = gen_data(rng, n, p, kind, boundary=spec["kw"]["min_segment_length"])
    int_dtype = bool(rng.random() < 0.15)
    if int_dtype:
        X = np.round(2 * X)
    elif rng.random() < 0.2:
        X = X * float(rng.choice([1e-3, 1e-5, 1e-7]))  # the same signal in a small unit of measurement
    if not int_dtype and rng.random() < 0.05:
        # finite data whose squares overflow: some interval scores become inf - inf = NaN.  A NaN
        # does not exceed any threshold, so no changepoint may rest on a NaN-scored interval
        for _ in range(int(rng.integers(1, 3))):
            X[int(rng.integers(n)), int(rng.integers(p))] = float(rng.choice([1e160, -1e160, 1e200]))
        kind = kind + "+overflow"
    return {"det": spec, "X": X, "data_kind": kind, "int_dtype": int_dtype, "history": H.pick(rng),
            "hseed": int(rng.integers(2 ** 31)), "frame": "df" if rng.random() < 0.5 else None}


def fresh_score(spec_cs, X):
    from skchange.change_scores import CUSUM, to_change_score

    cs = build(spec_cs)
    return to_change_score(CUSUM() if cs is None else cs).fit(X)


def long_recipe(rng):
    """One long series per run (shard 0): candidate intervals with tens of thousands of admissible splits, i.e.
    evaluate() batches far beyond anything the short cases produce (block-wise / chunked evaluation paths).
    The data are regenerated from the seed; the recipe stays small."""
    n = int(rng.integers(36000, 46000))
    msl = int(rng.integers(1500, 3500))
    cs = [None, S("L2Cost", param=None), S("CUSUM")][int(rng.integers(3))]
    spec = S("SeededBinarySegmentation", change_score=cs, threshold_scale=1.0, level=0.01, min_segment_length=msl,
             max_interval_length=n, growth_factor=float(rng.choice([1.5, 2.0])))
    return {"det": spec, "long": {"n": n, "p": 2, "seed": int(rng.integers(2 ** 31))}, "data_kind": "long",
            "int_dtype": False, "history": None, "hseed": 0, "frame": None}


def _long_data(d):
    rng = np.random.default_rng(d["seed"])
    X = rng.standard_normal((d["n"], d["p"]))
    # a shift in the last tenth of the series: the best split of the long intervals lies in their tail
    X[int(d["n"] * rng.uniform(0.88, 0.93)):] += 0.15
    X[int(d["n"] * rng.uniform(0.3, 0.6)):] += 0.05
    return X


def exec_case(ctx, r):
    X = _long_data(r["long"]) if r.get("long") else np.asarray(r["X"], dtype=float)
    if r.get("long"):
        ctx.stat("long_series_cases")
    if r.get("int_dtype"):
        X = X.astype(np.int64)  # the same numbers passed with an integer dtype
    n, p = X.shape
    spec = r["det"]
    kw = spec["kw"]
    msl, mil = kw["min_segment_length"], kw["max_interval_length"]
    ctx.case()
    if r.get("int_dtype"):
        ctx.stat("cases[int64 data]")
    if mil == 2 * msl:
        ctx.stat("cases[max_interval_length==2*msl]")
    if n == 2 * msl:
        ctx.stat("cases[n==2*msl]")
    label = f"{short(spec)} X[{n}x{p}] data={r['data_kind']}"
    sub = "sbs"
    I.drain()
    try:
        with time_limit(60):
            # the judged predict comes after a history (vf/history.py); Xarg holds exactly X's values
            det, Xarg = H.prepare(build(spec), X, r.get("history"), r.get("hseed", 0), 2 * msl, r.get("frame"))
            y = det.predict(Xarg)
            ctx.stat(f"history[{r.get('history')}]")
    except CaseTimeout:
        ctx.stat("case_timeouts")
        return
    except RuntimeError as ex:
        if "GaussianCovCost" in short(spec) and "positive definite" in str(ex):
            ctx.stat("documented_runtimeerror")  # permitted outcome for a singular slice covariance
            return
        ctx.violation(sub, "exception", f"{label}: {type(ex).__name__}: {ex}", r)
        return
    except Exception as ex:
        ctx.violation(sub, "exception", f"{label}: {type(ex).__name__}: {ex}", r)
        return
    thr = float(det.threshold_)
    if not thr >= 0:
        ctx.stat("negative_threshold_skipped")
        return
    tab = det.scores
    try:
        st, en = tab["start"].to_numpy().astype(int), tab["end"].to_numpy().astype(int)
        am, sc = tab["argmax_cpt"].to_numpy().astype(int), tab["score"].to_numpy().astype(float)
    except Exception as ex:
        ctx.violation(sub, "table-format", f"{label}: scores table unreadable: {ex}", r)
        return
    if len(st) == 0:
        ctx.violation(sub, "no-candidate-intervals", f"{label}: no candidate interval although "
                      f"n={n} >= 2*min_segment_length={2 * msl}", r)
        return
    L = en - st
    lim = min(mil, n)
    if st.min() < 0 or en.max() > n or L.min() < 2 * msl or L.max() > lim:
        bad = [(int(a), int(b)) for a, b in zip(st, en) if a < 0 or b > n or b - a < 2 * msl or b - a > lim]
        ctx.violation(sub, "interval-bounds", f"{label}: candidate intervals {bad[:5]} outside [0,{n}] or "
                      f"with length outside [{2 * msl}, {lim}]", r)
        return
    cs = fresh_score(kw["change_score"], X.astype(float))
    row_fail = False
    for i in range(len(st)):
        splits = np.arange(st[i] + msl, en[i] - msl + 1)
        cuts = np.column_stack((np.full(splits.size, st[i]), splits, np.full(splits.size, en[i])))
        with np.errstate(all="ignore"):
            # the reference evaluates in small batches: a row's value must not depend on the size of the batch
            agg = np.concatenate([cs.evaluate(cuts[a:a + 1000]).sum(axis=1) for a in range(0, len(cuts), 1000)])
        if len(cuts) > 16384:
            ctx.stat("table_rows_with_more_than_16384_splits")
        ctx.stat("table_rows_checked")
        if not (np.all(np.isfinite(agg)) and np.isfinite(sc[i])):
            ctx.stat("nonfinite_rows_skipped")  # overflowing data: only the selection clauses are judged
            continue
        tol = 1e-9 * np.abs(agg).max() + 1e-300  # purely relative: scores scale with the data's unit
        if abs(sc[i] - agg.max()) > tol:
            ctx.violation(sub, "row-score", f"{label}: interval [{st[i]},{en[i]}) reports score {sc[i]} "
                          f"but the maximum over admissible splits is {agg.max()}", r)
            row_fail = True
            break
        if not (st[i] + msl <= am[i] <= en[i] - msl) or agg[am[i] - splits[0]] < agg.max() - tol:
            ctx.violation(sub, "row-argmax", f"{label}: interval [{st[i]},{en[i]}) reports maximiser "
                          f"{am[i]} which is not an admissible maximiser (argmax "
                          f"{int(splits[int(np.argmax(agg))])})", r)
            row_fail = True
            break
    if row_fail:
        return
    cp = [int(c) for c in y["ilocs"].tolist()]

    def removes(i):
        return (st <= am[i]) & (am[i] <= en - 1)

    if np.any(np.isnan(sc)):
        ctx.stat("cases[NaN scores]")
    # a NaN score does not exceed the threshold: for the selection it is an interval that never counts
    outs = greedy_outcomes(np.where(np.isnan(sc), -np.inf, sc), [int(a) for a in am], removes, thr)
    if outs is None:
        ctx.stat("near_tie_skipped")
    else:
        ctx.stat("greedy_compared")
        if len(outs) > 1:
            ctx.stat("tie_branches_explored")
        if frozenset(cp) not in outs or len(set(cp)) != len(cp):
            want = sorted(sorted(o) for o in outs)[:3]
            ctx.violation(sub, "greedy-selection", f"{label}: predicted changepoints {cp} != greedy "
                          f"selection over the reported table with threshold {thr}: {want}", r)
    above = sc > thr
    for c in cp:
        if not np.any(above & (am == c)):
            ctx.violation(sub, "unsupported-changepoint", f"{label}: changepoint {c} is not the maximiser "
                          f"of any interval scoring above the threshold {thr}", r)
            break
    for i in np.flatnonzero(above):
        if not any(st[i] <= c < en[i] for c in cp):
            ctx.violation(sub, "uncovered-interval", f"{label}: interval [{st[i]},{en[i]}) scores {sc[i]} > "
                          f"{thr} but holds no changepoint ({cp})", r)
            break
    # raising the threshold can only remove changepoints (both thresholds from X's own shape)
    if kw["threshold_scale"] is not None and r.get("history") != "fit_other":
        try:
            s2 = kw["threshold_scale"] * float(np.random.default_rng(len(cp) + n).choice([1.3, 2.0, 4.0])) + 0.05
            d2 = build({"cls": spec["cls"], "kw": dict(kw, threshold_scale=s2)}).fit(X)
            cp2 = [int(c) for c in d2.predict(X)["ilocs"].tolist()]
            ctx.stat("threshold_pairs")
            if not set(cp2) <= set(cp):
                ctx.violation(sub, "threshold-monotone", f"{label}: raising the threshold to scale {s2} "
                              f"adds changepoints {sorted(set(cp2) - set(cp))}", r)
        except Exception as ex:
            ctx.violation(sub, "exception", f"{label}: rerun with larger threshold raised {ex}", r)
    for h in I.drain():
        if h["contract"] == "K1":
            ctx.violation("contract-K1", "malformed", f"{label}: {h['message']}", r)
    n_above = int(above.sum())
    if n_above >= 2 and len(cp) < n_above:
        ctx.nt(digest([spec, r.get("long") or r["X"]]))
    ctx.sample({"case": label, "rows": int(len(st)), "rows_above_threshold": n_above,
                "changepoints": cp, "threshold": thr}, cap=3)


def run(ctx):
    I.install()
    for _ in range(CASES[ctx.tier]):
        exec_case(ctx, make_recipe(ctx.rng, ctx.tier))
    if ctx.shard < 4:  # four long series per quick run (different lengths, minimum lengths, shift positions)
        for _ in range(1 if ctx.tier == "quick" else 3):
            exec_case(ctx, long_recipe(ctx.rng))


def replay(ctx, sub, recipe):
    I.install()
    exec_case(ctx, recipe)
