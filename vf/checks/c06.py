"""C06 - scores derived from costs equal their defining cost differences."""
import numpy as np

from vf import instrument as I
from vf.core import digest
from vf.gen import ALL_KINDS, gen_data
from vf.models import costs as M
from vf.models import scores as SM
from vf.scorers import COST_KINDS, cost_pair, fixed_param
from vf.spec import S, build, short

SHARDS = {"quick": 16, "thorough": 16}
WATCHDOG = {"quick": 1200, "thorough": 7200}
CASES = {"quick": 70, "thorough": 500}
FLOORS = {
    "quick": {"adapters_whose_cost_got_its_parameter_after_construction": 54, "regular_subbatch_rows": 13343, "distinct_nontrivial": 360, "identity_rows": 58000, "direct_rows": 52000,
              "inequality_rows": 25000, "cases[user-cost]": 85, "long_series_rows": 8},
    "thorough": {"distinct_nontrivial": 3000, "identity_rows": 400000},
}
ANCHORS = [
    "skchange.change_scores.from_cost.ChangeScore._evaluate",
    "skchange.change_scores.cusum.cusum_score",
    "skchange.anomaly_scores.from_cost.Saving._evaluate",
    "skchange.anomaly_scores.from_cost.LocalAnomalyScore._evaluate",
    "skchange.anomaly_scores.l2_saving.l2_saving",
    "skchange.change_scores.from_cost.to_change_score",
    "skchange.anomaly_scores.from_cost.to_saving",
    "skchange.anomaly_scores.from_cost.to_local_anomaly_score",
]
LEVEL = "exploration"
RULE = (
    "case = (adapter in {ChangeScore, Saving, LocalAnomalyScore} x cost in {L2, GaussianVar, "
    "GaussianCov, user L1Cost / ModeCost / ClosureTableCost / LazySSECost (reads the inherited _X) / ScaledSSECost (fixed parameter, not additive over rows)} x parameter mode x seeded data); all "
    "admissible 3- and 4-point cuts for n<=12, random ones beyond (n<=40 quick / 200 thorough, "
    "p<=4). Oracles: (i) adapter output == the stated combination of public evaluate() results of "
    "FRESH cost instances (pooled surroundings: a fresh cost fitted on concat(X[s:a],X[b:e])); "
    "(ii) CUSUM^2 == ChangeScore(L2Cost), L2Saving == Saving(L2Cost(0)) and both inside the model "
    "interval computed from the slices; (iii) change scores, savings >= 0, optimal <= fixed, "
    "split inequality, within the model's rounding width, only where all variances are above "
    "1e-14 (data in tiny units of measurement included); (iv) to_* pass-throughs. Non-trivial = case with an interior cut "
    "and (p>1 or non-zero baseline or user cost); distinct by recipe digest."
)
ASSUMPTIONS = [
    "identity tolerance: 64*eps*sum|terms| (same arithmetic on both sides)",
    "inequalities only asserted where every involved segment variance stays above 1e-14 (two orders above the floor)",
]

USER_COSTS = ["L1Cost", "ModeCost", "ClosureTableCost", "LazySSECost", "ScaledSSECost"]


def make_recipe(rng, tier):
    adapter = ["ChangeScore", "Saving", "LocalAnomalyScore", "direct"][int(rng.integers(4))]
    pmax = 4
    p = int(rng.integers(1, pmax + 1))
    user = adapter != "direct" and rng.random() < 0.25
    if user:
        kind = USER_COSTS[int(rng.integers(len(USER_COSTS)))]
        if adapter == "Saving":
            kind = "L1Cost"
            cost = S(kind, param=round(float(rng.normal(0, 1)), 2), weight=float(rng.choice([0.5, 1.0, 2.0, 3.0])))
        elif kind == "ClosureTableCost":
            cost = S(kind, seed=int(rng.integers(1000)), maxinc=int(rng.integers(1, 4)),
                     zero_prob=float(rng.choice([0.2, 0.5, 0.8])))
        elif kind == "ScaledSSECost":
            # fixed parameter (a known variance) in most cases: still not additive over rows
            cost = S(kind, param=None if rng.random() < 0.25 else float(rng.choice([0.25, 0.5, 2.0, 4.0])))
        elif kind == "L1Cost":
            cost = S(kind, param=None if rng.random() < 0.6 else round(float(rng.normal(0, 1)), 2),
                     weight=float(rng.choice([0.5, 1.0, 2.0, 3.0])))
        else:
            cost = S(kind, param=None)
        ms = 1
    elif adapter == "direct":
        kind, cost, ms = "direct", None, 1
    else:
        kind = COST_KINDS[int(rng.integers(3))]
        fixed = adapter == "Saving" or rng.random() < 0.35
        cost, _ = cost_pair(rng, kind, p, fixed)
        ms = M.min_size(kind, p)
    nmax = 40 if tier == "quick" else (200 if rng.random() < 0.1 else 60)
    if adapter == "LocalAnomalyScore":
        nmax = min(nmax, 30 if tier == "quick" else 60)
    n = int(rng.integers(max(2 * ms, 2), max(2 * ms, 2) + nmax))
    dk = ALL_KINDS[int(rng.integers(len(ALL_KINDS)))]
    if kind == "GaussianCovCost" and dk in ("constant", "piecewise_const", "small_alphabet"):
        dk = "noise"
    X, _ = gen_data(rng, n, p, dk)
    if kind in ("GaussianVarCost", "GaussianCovCost") and rng.random() < 0.3 and dk not in (
            "constant", "piecewise_const", "small_alphabet", "dyadic", "offset", "scaled_big"):
        # tiny unit of measurement: variances around 1e-10 .. 1e-14, still far above the 1e-16 floor
        X = X * float(rng.choice([1e-5, 1e-6, 1e-7]))
        if cost["kw"].get("param") is not None:
            cost = S(kind, param={"tuple": [0.0, 1e-12]})
        dk = dk + "*tiny"
    return {"adapter": adapter, "cost": cost, "kind": kind, "user": bool(user), "data_kind": dk,
            "X": X, "sub_seed": int(rng.integers(2 ** 31))}


def _cuts(rng, n, k, ms, local=False, exhaustive_n=12, sample=300):
    import itertools

    def ok(c):
        d = np.diff(c)
        if local:
            return d.min() >= 1 and d[1] >= ms and d[0] + d[2] >= ms
        return d.min() >= ms

    if n <= exhaustive_n:
        return np.array([c for c in itertools.combinations(range(n + 1), k) if ok(c)], dtype=np.int64)
    out = set()
    tries = 0
    while len(out) < sample and tries < sample * 30:
        tries += 1
        c = tuple(sorted(rng.choice(n + 1, size=k, replace=False).tolist()))
        if ok(c):
            out.add(c)
    return np.array(sorted(out), dtype=np.int64)


def _close(a, b, terms):
    tol = 64 * M.EPS * np.sum([np.abs(t) for t in terms], axis=0) + 1e-300
    return np.abs(a - b) <= tol


def exec_case(ctx, r):
    if r.get("long"):
        long_series_case(ctx, r)
        return
    X = np.asarray(r["X"], dtype=float)
    n, p = X.shape
    rng = np.random.default_rng(r["sub_seed"])
    adapter, cost_spec, kind = r["adapter"], r["cost"], r["kind"]
    ctx.case()
    ctx.stat(f"adapter[{adapter}]")
    ctx.stat(f"cost[{kind}]")
    if r["user"]:
        ctx.stat("cases[user-cost]")
    I.drain()
    label = f"{adapter}({short(cost_spec) if cost_spec else ''}) n={n} p={p} data={r['data_kind']}"
    tol = M.DataTol(X)
    interior = False

    def fresh_cost(param="same", data=X):
        spec = cost_spec if param == "same" else {
            "cls": cost_spec["cls"], "kw": dict(cost_spec["kw"], param=None)}
        return build(spec).fit(data)

    def fit_adapter(spec_a, data):
        """Fit the adapter; in a third of the cases the SAME data object held other values during an
        earlier fit + evaluate and was then overwritten in place (the scores must follow the last fit)."""
        a = build(spec_a)
        # The adapter was built around a cost holding ANOTHER fixed parameter (zero mean, unit variance) and the
        # caller then gave the cost object they still hold its real parameter (set_params on the cost, not on the
        # adapter).  The adapter's hyper-parameters now say the real parameter, and so must its scores.
        inner_key = [k for k, v in spec_a["kw"].items() if isinstance(v, dict) and "cls" in v]
        real = cost_spec["kw"].get("param") if cost_spec else None
        if inner_key and real is not None and kind in COST_KINDS and (r["sub_seed"] // 3) % 3 == 0:
            alt = 0.0 if kind == "L2Cost" else (0.0, 1.0)
            try:
                a0 = build({"cls": spec_a["cls"], "kw": dict(spec_a["kw"], **{
                    inner_key[0]: {"cls": cost_spec["cls"], "kw": dict(cost_spec["kw"], param=(
                        alt if not isinstance(alt, tuple) else {"tuple": list(alt)}))}})})
                held = getattr(a0, inner_key[0])  # the object the caller passed in and still holds
                if (r["sub_seed"] // 9) % 2:
                    a0.fit(data)  # ... possibly after the adapter was already used once
                held.set_params(param=build(real))
                a = a0
                ctx.stat("adapters_whose_cost_got_its_parameter_after_construction")
            except Exception:  # noqa (the detour itself is not what is judged)
                a = build(spec_a)
        if r["sub_seed"] % 3 == 0 and not r.get("long"):
            obj = (data[::-1] * 1.7 + 0.4).copy()
            a.fit(obj)
            k_ = a.expected_cut_entries
            try:
                a.evaluate(np.array([np.linspace(0, len(obj), k_).astype(int)], dtype=np.int64))
            except Exception:  # noqa (too short for this adapter: the earlier use is not what is judged)
                pass
            obj[...] = data
            ctx.stat("adapters_refitted_on_edited_object")
            return a.fit(obj)
        return a.fit(data)

    try:
        if adapter == "direct":
            _direct(ctx, r, X, tol, rng, label)
            return
        ms = build(cost_spec).fit(X).min_size
        if adapter == "ChangeScore":
            sub = "adapter-change-score"
            cuts = _cuts(rng, n, 3, ms)
            if len(cuts) == 0:
                return
            sc = fit_adapter(S("ChangeScore", cost=cost_spec), X)
            got = sc.evaluate(cuts)
            c = fresh_cost()
            full, left, right = (c.evaluate(cuts[:, [0, 2]]), c.evaluate(cuts[:, [0, 1]]),
                                 c.evaluate(cuts[:, [1, 2]]))
            want = full - left - right
            okm = _close(got, want, [full, left, right])
            ctx.stat("identity_rows", len(cuts))
            if got.shape != want.shape or not okm.all():
                i = int(np.argwhere(~okm.all(axis=1))[0, 0]) if got.shape == want.shape else 0
                ctx.violation(sub, "identity", f"{label}: cut {cuts[i].tolist()} score "
                              f"{got[i].tolist() if got.shape == want.shape else got.shape} != C(s,e)-C(s,k)-C(k,e) = {want[i].tolist()}", r)
            interior = bool(np.any((cuts[:, 0] > 0) & (cuts[:, 2] < n)))
            _ineq_change(ctx, r, kind, cost_spec, X, tol, cuts, got, label)
        elif adapter == "Saving":
            sub = "adapter-saving"
            cuts = _cuts(rng, n, 2, ms)
            if len(cuts) == 0:
                return
            sc = fit_adapter(S("Saving", baseline_cost=cost_spec), X)
            got = sc.evaluate(cuts)
            base = fresh_cost().evaluate(cuts)
            opt = fresh_cost(param=None).evaluate(cuts)
            want = base - opt
            okm = _close(got, want, [base, opt])
            ctx.stat("identity_rows", len(cuts))
            if got.shape != want.shape or not okm.all():
                i = int(np.argwhere(~okm.all(axis=1))[0, 0]) if got.shape == want.shape else 0
                ctx.violation(sub, "identity", f"{label}: [{cuts[i].tolist()}) saving "
                              f"{got[i].tolist()} != C_fixed - C_optimal = {want[i].tolist()}", r)
            interior = bool(np.any((cuts[:, 0] > 0) & (cuts[:, 1] < n)))
            _ineq_saving(ctx, r, kind, cost_spec, X, tol, cuts, got, base, opt, label)
        else:
            sub = "adapter-local-anomaly"
            cuts = _cuts(rng, n, 4, ms, local=True, exhaustive_n=10, sample=120)
            if len(cuts) == 0:
                return
            sc = fit_adapter(S("LocalAnomalyScore", cost=cost_spec), X)
            got = sc.evaluate(cuts)
            c = fresh_cost()
            outer, inner = c.evaluate(cuts[:, [0, 3]]), c.evaluate(cuts[:, [1, 2]])
            pooled = np.zeros_like(outer)
            for i, (s, a, b, e) in enumerate(cuts):
                Z = np.concatenate((X[s:a], X[b:e]))
                pooled[i] = fresh_cost(data=Z).evaluate(np.array([[0, len(Z)]]))[0]
            want = outer - inner - pooled
            okm = _close(got, want, [outer, inner, pooled])
            ctx.stat("identity_rows", len(cuts))
            if got.shape != want.shape or not okm.all():
                i = int(np.argwhere(~okm.all(axis=1))[0, 0]) if got.shape == want.shape else 0
                ctx.violation(sub, "identity", f"{label}: cut {cuts[i].tolist()} local score "
                              f"{got[i].tolist()} != C(s,e)-C(a,b)-C(pooled) = {want[i].tolist()}", r)
            interior = bool(np.any((cuts[:, 0] > 0) & (cuts[:, 3] < n)))
            # the adapter must leave a second evaluation of the same cuts unchanged
            again = sc.evaluate(cuts[::-1])[::-1]
            if not _close(again, got, [got]).all():
                ctx.violation(sub, "order-dependence", f"{label}: reversed batch differs", r)
        # a row's score must not depend on the batch it is evaluated in: regular sub-batches (constant part
        # sizes = sliding window, common outer interval, common start, single row) against the full batch
        from vf.core import regular_subbatches

        for bname, sel in regular_subbatches(rng, cuts):
            v = sc.evaluate(cuts[sel])
            ctx.stat("regular_subbatch_rows", len(sel))
            ctx.stat(f"regular_subbatches[{bname}{', 2+ rows' if len(sel) > 1 else ''}]")
            if v.shape != got[sel].shape or not _close(v, got[sel], [got[sel]]).all():
                j = int(np.argwhere(~_close(v, got[sel], [got[sel]]).all(axis=1))[0, 0]) if v.shape == got[sel].shape else 0
                ctx.violation(sub, "batch-dependence", f"{label}: cut {cuts[sel][j].tolist()} scores "
                              f"{v[j].tolist() if v.shape == got[sel].shape else v.shape} in a {bname} batch of {len(sel)} rows but "
                              f"{got[sel][j].tolist()} in the full batch", r)
                break
    except RuntimeError as ex:
        if kind == "GaussianCovCost":
            ctx.stat("documented_runtimeerror")
            return
        ctx.violation("adapter", "exception", f"{label}: RuntimeError {ex}", r)
        return
    except Exception as ex:
        ctx.violation("adapter", "exception", f"{label}: {type(ex).__name__}: {ex}", r)
        return
    if interior and (p > 1 or r["user"] or (cost_spec and cost_spec["kw"].get("param") is not None)):
        ctx.nt(digest([adapter, cost_spec, r["X"]]))
    ctx.sample({"case": label, "first_rows": X[:2].tolist()})


def _wellcond(kind, X, tol, parts):
    """True when every part's variance is well above the floor (statement's premise)."""
    if kind not in ("GaussianVarCost", "GaussianCovCost"):
        return True
    for s, e in parts:
        seg = X[s:e]
        if kind == "GaussianVarCost":
            if seg.var(axis=0).min() <= 1e-14:
                return False
        else:
            lam = np.linalg.eigvalsh(np.cov(seg, rowvar=False, ddof=0).reshape(seg.shape[1], -1))
            if lam.min() <= 1e-14:
                return False
    return True


def _ineq_change(ctx, r, kind, cost_spec, X, tol, cuts, got, label):
    sub = "inequality-change-score"
    builtin = kind in COST_KINDS
    param = build(cost_spec["kw"].get("param")) if builtin else None
    for i in range(0, len(cuts), max(1, len(cuts) // 150)):
        s, k, e = (int(v) for v in cuts[i])
        if builtin:
            if not _wellcond(kind, X, tol, [(s, k), (k, e), (s, e)]):
                ctx.stat("floor_skipped")
                continue
            iv = SM.change_from_cost(kind, param, X, tol, s, k, e)
            if iv is None:
                continue
            width = (iv[1] - iv[0])
            if not (np.all(got[i] >= iv[0]) and np.all(got[i] <= iv[1])):
                ctx.violation("value-change-score", "value", f"{label}: cut {(s, k, e)} = {got[i].tolist()} "
                              f"outside model [{iv[0].tolist()}, {iv[1].tolist()}]", r)
                return
        else:
            width = 1e-9 * (1 + np.abs(got[i]))
        ctx.stat("inequality_rows")
        if np.any(got[i] < -width - 1e-12):
            ctx.violation(sub, "negative", f"{label}: change score {got[i].tolist()} < 0 at {(s, k, e)} "
                          "(splitting increased the cost)", r)
            return


def _ineq_saving(ctx, r, kind, cost_spec, X, tol, cuts, got, base, opt, label):
    sub = "inequality-saving"
    builtin = kind in COST_KINDS
    param = build(cost_spec["kw"].get("param")) if builtin else None
    for i in range(0, len(cuts), max(1, len(cuts) // 150)):
        s, e = (int(v) for v in cuts[i])
        if builtin:
            if not _wellcond(kind, X, tol, [(s, e)]):
                ctx.stat("floor_skipped")
                continue
            iv = SM.saving_from_cost(kind, param, X, tol, s, e)
            if iv is None:
                continue
            width = iv[1] - iv[0]
            if not (np.all(got[i] >= iv[0]) and np.all(got[i] <= iv[1])):
                ctx.violation("value-saving", "value", f"{label}: [{s},{e}) = {got[i].tolist()} outside "
                              f"model [{iv[0].tolist()}, {iv[1].tolist()}]", r)
                return
        else:
            width = 1e-9 * (1 + np.abs(base[i]))
        ctx.stat("inequality_rows")
        if np.any(got[i] < -width - 1e-12) or np.any(opt[i] > base[i] + width + 1e-12):
            ctx.violation(sub, "negative", f"{label}: saving {got[i].tolist()} < 0 at [{s},{e}) "
                          f"(optimal cost {opt[i].tolist()} above fixed cost {base[i].tolist()})", r)
            return


def _direct(ctx, r, X, tol, rng, label):
    """CUSUM^2 == ChangeScore(L2Cost); L2Saving == Saving(L2Cost(0)); pass-throughs."""
    from skchange.anomaly_scores import L2Saving, to_local_anomaly_score, to_saving
    from skchange.anomaly_scores.from_cost import LocalAnomalyScore, Saving
    from skchange.change_scores import CUSUM, to_change_score
    from skchange.change_scores.from_cost import ChangeScore
    from skchange.costs import L2Cost

    n, p = X.shape
    cuts3 = _cuts(rng, n, 3, 1)
    cuts2 = _cuts(rng, n, 2, 1)
    cus = CUSUM().fit(X).evaluate(cuts3)
    l2cs = ChangeScore(L2Cost()).fit(X).evaluate(cuts3)
    for i in range(len(cuts3)):
        c = tuple(int(v) for v in cuts3[i])
        civ = SM.cusum(X, tol, *c)
        siv = SM.change_from_cost("L2Cost", None, X, tol, *c)
        ctx.stat("direct_rows")
        if not (np.all(cus[i] >= civ[0]) and np.all(cus[i] <= civ[1])):
            ctx.violation("direct-cusum", "value", f"{label}: CUSUM{c} = {cus[i].tolist()} outside "
                          f"model [{civ[0].tolist()}, {civ[1].tolist()}]", r)
            break
        sq = SM.square_interval(civ)
        w = (sq[1] - sq[0]) + (siv[1] - siv[0])
        if np.any(np.abs(cus[i] ** 2 - l2cs[i]) > w + 1e-300) or np.any(cus[i] < 0):
            ctx.violation("direct-cusum", "cusum2-vs-l2", f"{label}: CUSUM^2{c} = {(cus[i] ** 2).tolist()} "
                          f"!= ChangeScore(L2Cost) = {l2cs[i].tolist()} (width {w.tolist()})", r)
            break
    sav = L2Saving().fit(X).evaluate(cuts2)
    sav2 = Saving(L2Cost(param=0.0)).fit(X).evaluate(cuts2)
    for i in range(len(cuts2)):
        s, e = (int(v) for v in cuts2[i])
        iv = SM.l2_saving(X, tol, s, e)
        iv2 = SM.saving_from_cost("L2Cost", 0.0, X, tol, s, e)
        ctx.stat("direct_rows")
        if not (np.all(sav[i] >= iv[0]) and np.all(sav[i] <= iv[1])):
            ctx.violation("direct-l2saving", "value", f"{label}: L2Saving[{s},{e}) = {sav[i].tolist()} "
                          f"outside model [{iv[0].tolist()}, {iv[1].tolist()}]", r)
            break
        w = (iv[1] - iv[0]) + (iv2[1] - iv2[0])
        if np.any(np.abs(sav[i] - sav2[i]) > w + 1e-300) or np.any(sav[i] < -(iv[1] - iv[0])):
            ctx.violation("direct-l2saving", "l2saving-vs-saving", f"{label}: L2Saving[{s},{e}) = "
                          f"{sav[i].tolist()} != Saving(L2Cost(0)) = {sav2[i].tolist()}", r)
            break
    # the directly implemented scores in regular sub-batches (sliding window with unequal halves, one row, ...)
    from vf.core import regular_subbatches

    for nm, mk, cc, full in (("CUSUM", CUSUM, cuts3, cus), ("L2Saving", L2Saving, cuts2, sav)):
        obj = mk().fit(X)
        for bname, sel in regular_subbatches(rng, cc):
            v = obj.evaluate(cc[sel])
            ctx.stat("regular_subbatch_rows", len(sel))
            ctx.stat(f"regular_subbatches[{bname}{', 2+ rows' if len(sel) > 1 else ''}]")
            if v.shape != full[sel].shape or not _close(v, full[sel], [full[sel]]).all():
                ctx.violation("direct-" + nm.lower(), "batch-dependence", f"{label}: {nm} rows of a {bname} batch "
                              f"({cc[sel][:3].tolist()}...) differ from the same rows in the full batch: "
                              f"{v[:3].tolist()} vs {full[sel][:3].tolist()}", r)
                break
    # pass-throughs
    c = L2Cost()
    cs, sv, la = CUSUM(), L2Saving(), LocalAnomalyScore(L2Cost())
    checks = [
        (isinstance(to_change_score(c), ChangeScore) and to_change_score(c).cost is c, "to_change_score(cost)"),
        (to_change_score(cs) is cs, "to_change_score(score)"),
        (isinstance(to_saving(L2Cost(param=0.0)), Saving), "to_saving(cost)"),
        (to_saving(sv) is sv, "to_saving(saving)"),
        (isinstance(to_local_anomaly_score(c), LocalAnomalyScore), "to_local_anomaly_score(cost)"),
        (to_local_anomaly_score(la) is la, "to_local_anomaly_score(score)"),
    ]
    for ok, what in checks:
        ctx.stat("passthrough_checks")
        if not ok:
            ctx.violation("pass-through", "wrong-object", f"{what} did not return the expected object", r)
    for f, bad in [(to_change_score, sv), (to_saving, cs), (to_local_anomaly_score, cs)]:
        try:
            f(bad)
            ctx.violation("pass-through", "accepted-wrong-type",
                          f"{f.__name__}({type(bad).__name__}) did not raise", r)
        except ValueError:
            pass
        except Exception as ex:
            ctx.violation("pass-through", "wrong-exception",
                          f"{f.__name__}({type(bad).__name__}) raised {type(ex).__name__}", r)
    if p > 1 and n > 3:
        ctx.nt(digest(["direct", r["X"]]))


def long_series_case(ctx, r):
    """One very long univariate series (millions of rows): the directly implemented scores must keep
    agreeing with their cost-based twins where segment-length products leave the int64 range."""
    from skchange.anomaly_scores import L2Saving
    from skchange.anomaly_scores.from_cost import Saving
    from skchange.change_scores import CUSUM
    from skchange.change_scores.from_cost import ChangeScore
    from skchange.costs import L2Cost

    n = int(r["n"])
    rng = np.random.default_rng(r["seed"])
    X = rng.standard_normal((n, 1))
    X[n // 2:] += 0.01
    ctx.case()
    ctx.stat("long_series_cases")
    tol = M.DataTol(X)
    h = n // 2
    cuts3 = np.array([[0, h, n], [0, h - 250000, n - 500000], [1000, h, n - 1000], [0, 1, n],
                      [0, n - 1, n], [0, n // 3, n], [h - 10, h, h + 10], [0, 1000, 2000],
                      [n // 10, h, n], [0, h, n - n // 10]], dtype=np.int64)
    cuts2 = cuts3[:, [0, 2]]
    label = f"long series n={n}"
    try:
        cus = CUSUM().fit(X).evaluate(cuts3)
        l2cs = ChangeScore(L2Cost()).fit(X).evaluate(cuts3)
        sav = L2Saving().fit(X).evaluate(cuts2)
        sav2 = Saving(L2Cost(param=0.0)).fit(X).evaluate(cuts2)
    except Exception as ex:
        ctx.violation("direct-long-series", "exception", f"{label}: {type(ex).__name__}: {ex}", r)
        return
    for i in range(len(cuts3)):
        c = tuple(int(v) for v in cuts3[i])
        civ = SM.cusum(X, tol, *c)
        siv = SM.change_from_cost("L2Cost", None, X, tol, *c)
        ctx.stat("long_series_rows")
        sq = SM.square_interval(civ)
        w = (sq[1] - sq[0]) + (siv[1] - siv[0])
        if not (np.all(np.isfinite(cus[i])) and np.all(cus[i] >= civ[0]) and np.all(cus[i] <= civ[1])):
            ctx.violation("direct-long-series", "cusum-value", f"{label}: CUSUM{c} = {cus[i].tolist()} outside "
                          f"model [{civ[0].tolist()}, {civ[1].tolist()}]", r)
            return
        if np.any(np.abs(cus[i] ** 2 - l2cs[i]) > w + 1e-300):
            ctx.violation("direct-long-series", "cusum2-vs-l2", f"{label}: CUSUM^2{c} = {(cus[i] ** 2).tolist()} "
                          f"!= ChangeScore(L2Cost) = {l2cs[i].tolist()} (width {w.tolist()})", r)
            return
        s_, e_ = c[0], c[2]
        iv = SM.l2_saving(X, tol, s_, e_)
        iv2 = SM.saving_from_cost("L2Cost", 0.0, X, tol, s_, e_)
        if not (np.all(sav[i] >= iv[0]) and np.all(sav[i] <= iv[1])) or np.any(
                np.abs(sav[i] - sav2[i]) > (iv[1] - iv[0]) + (iv2[1] - iv2[0])):
            ctx.violation("direct-long-series", "l2saving", f"{label}: L2Saving[{s_},{e_}) = {sav[i].tolist()} vs "
                          f"Saving(L2Cost(0)) = {sav2[i].tolist()}, model [{iv[0].tolist()}, {iv[1].tolist()}]", r)
            return
    ctx.nt(digest(["long", r["n"], r["seed"]]))


def run(ctx):
    I.install()
    for _ in range(CASES[ctx.tier]):
        exec_case(ctx, make_recipe(ctx.rng, ctx.tier))
    if ctx.shard == 0:
        # (e-s)(k-s)(e-k) >= 2**63 needs about 3.4 million rows
        exec_case(ctx, {"long": True, "n": 4_600_000 + int(ctx.rng.integers(0, 1000)),
                        "seed": int(ctx.rng.integers(2 ** 31))})


def replay(ctx, sub, recipe):
    I.install()
    exec_case(ctx, recipe)
