"""C14 - documented-valid configurations always run; invalid ones fail with ValueError."""
import itertools

import numpy as np

from vf import instrument as I
from vf.core import CaseTimeout, CpuBudgetExceeded, cpu_budget, digest
from vf.gen import ALL_KINDS, gen_data
from vf.models.wellformed import problems
from vf.spec import S, build, short
from vf.zoo import DETECTORS, random_detector

SHARDS = {"quick": 16, "thorough": 16}
WATCHDOG = {"quick": 1800, "thorough": 10800}
ZOO_CASES = {"quick": 100, "thorough": 1500}
DEGENERATE_CASES = {"quick": 120, "thorough": 1500}
# 'does not run to completion' is decided in virtual time (CPU seconds of the process), never by the
# wall clock: a busy machine must not turn a slow case into a verdict (vf/core.cpu_budget)
CPU_BUDGET = 120
CPU_BUDGET_SMALL = 40
FLOORS = {
    "quick": {"distinct_nontrivial": 15000, "grid_valid_completed": 1200, "grid_invalid_rejected": 15000,
              "zoo_completed": 630, "nan_cases": 10000},
    "thorough": {"distinct_nontrivial": 6000, "grid_valid_completed": 2500, "degenerate_completed": 10000},
}
ANCHORS = [
    "skchange.utils.validation.parameters.check_larger_than",
    "skchange.utils.validation.parameters.check_in_interval",
    "skchange.utils.validation.data.check_data",
    "skchange.change_detectors.seeded_binseg.make_seeded_intervals",
    "skchange.anomaly_detectors.circular_binseg.make_anomaly_intervals",
    "skchange.change_detectors.moving_window.moving_window_transform",
]
LEVEL = "exploration"
EXHAUSTIVE_SUBSPACES = {
    t: ["full cross product of the boundary/interior hyper-parameter values listed in vf/checks/c14.py "
        "GRID per detector x n in {min-1, min, min+1, 3*min} x p in {1,2,3} (quick: {1,2}) x {clean, NaN}"]
    for t in ("quick", "thorough")}
RULE = (
    "(i) full cross product of boundary and interior hyper-parameter values per detector x data "
    "length around the documented minimum x p x {clean, NaN in fit data, NaN in predict data}; the "
    "outcome of Detector(**params) -> fit(X) -> predict(X) is classified by a grid oracle written "
    "from the documentation: invalid point => ValueError at construction or fit (predict for bad "
    "predict data); valid point => completes and the output satisfies the C04 predicate (contract K1); "
    "permitted extras: documented RuntimeError (multivariate Gaussian cost only), ValueError when the "
    "cost's minimum size exceeds the requested segment length / bandwidth. (ii) zoo: random valid "
    "configurations (user-defined scorers included) x 17 data kinds must run to completion; (iii) "
    "threshold-based detectors with a tuned (or zero) threshold on flat / piecewise-flat data of values "
    "that are not exactly representable (scores and tuned thresholds zero up to rounding, i.e. possibly "
    "slightly negative) must run to completion within 40 s of CPU time (n <= 50; they take well under 5 s); (iv) zoo configurations on finite "
    "data of extreme magnitude (x 1e100..1e300, x 1e-100..1e-310, offsets 1e8..1e15, mixed) likewise. "
    "Non-trivial = boundary-valued grid point (any parameter at the edge of its domain or n within 1 "
    "of the minimum); distinct by recipe digest."
)
ASSUMPTIONS = [
    "PELT(penalty_scale=None) ('not supported yet') and the intermediate penalty with p=1 (explicit "
    "guard) are in neither the valid nor the invalid grid",
    "min_detection_interval and level are not among the parameters the statement lists; only values "
    "accepted by both documentation and constructor are used",
]

L2 = S("L2Cost", param=None)
GV = S("GaussianVarCost", param=None)
GC = S("GaussianCovCost", param=None)

GRID = {
    "PELT": dict(cost=[None, L2, GV, GC], penalty_scale=[-1.0, 0.0, 0.5, 2.0], min_segment_length=[0, 1, 2, 5]),
    "SeededBinarySegmentation": dict(change_score=[None, L2, GV], threshold_scale=[-0.5, 0.0, 1.0, None],
                                     min_segment_length=[0, 1, 3], max_interval_length=["2m-1", "2m", "2m+1", 50],
                                     growth_factor=[0, 0.5, 1.0, 1.0001, 1.5, 2.0, 2.01]),
    "MovingWindow": dict(change_score=[None, L2, GV], bandwidth=[0, 1, 2, 5],
                         threshold_scale=[-1.0, 0.0, 1.0, None]),
    "CAPA": dict(collective_saving=[None, S("L2Cost", param=0.0), S("GaussianVarCost", param={"tuple": [0.0, 1.0]})],
                 collective_penalty_scale=[-1.0, 0.0, 1.0], point_penalty_scale=[-1.0, 0.0, 1.0],
                 min_segment_length=[1, 2, 4], max_segment_length=["m-1", "m", "m+5"]),
    "MVCAPA": dict(collective_penalty=["dense", "sparse", "combined"],
                   collective_penalty_scale=[-1.0, 0.0, 1.0], point_penalty_scale=[-1.0, 0.0, 1.0],
                   min_segment_length=[1, 2, 4], max_segment_length=["m-1", "m", "m+5"]),
    "CircularBinarySegmentation": dict(anomaly_score=[None, GV], threshold_scale=[-0.5, 0.0, 1.0, None],
                                       min_segment_length=[0, 1, 2], max_interval_length=["2m-1", "2m", "2m+1", 20],
                                       growth_factor=[0.0, 0.5, 1.0, 1.5, 2, 2.01]),
    "StatThresholdAnomaliser": dict(change_detector=[S("MovingWindow", bandwidth=1, threshold_scale=0.5),
                                                     S("MovingWindow", bandwidth=3), S("PELT", min_segment_length=1)],
                                    bounds=[(-1.0, 1.0), (0.0, 0.0), (1.0, -1.0), (0.5, 0.4999)]),
}


def classify(name, kw, p):
    """(params_valid, boundary, min_n, cost_min_size, needs) from the documentation."""
    inv, boundary = [], False
    g = kw.get
    cost_ms = 1

    def ms_of(spec):
        if spec is None:
            return 1
        return {"GaussianVarCost": 2, "GaussianCovCost": p + 1}.get(spec["cls"], 1)

    if name == "PELT":
        if g("penalty_scale") < 0:
            inv.append("negative penalty_scale")
        if g("min_segment_length") < 1:
            inv.append("min_segment_length < 1")
        boundary = g("penalty_scale") == 0 or g("min_segment_length") == 1
        return inv, boundary, 2 * max(g("min_segment_length"), 1), ms_of(g("cost")), g("min_segment_length")
    if name in ("SeededBinarySegmentation", "CircularBinarySegmentation"):
        m = g("min_segment_length")
        if g("threshold_scale") is not None and g("threshold_scale") < 0:
            inv.append("negative threshold_scale")
        if m < 1:
            inv.append("min_segment_length < 1")
        if g("max_interval_length") < 2 * m:
            inv.append("max_interval_length < 2*min_segment_length")
        if not (1.0 < g("growth_factor") <= 2.0):
            inv.append("growth_factor outside (1,2]")
        boundary = (m == 1 or g("max_interval_length") == 2 * m or g("growth_factor") in (1.0001, 2.0)
                    or g("threshold_scale") == 0)
        sc = g("change_score") if name.startswith("Seeded") else g("anomaly_score")
        return inv, boundary, 2 * max(m, 1), ms_of(sc), m
    if name == "MovingWindow":
        if g("bandwidth") < 1:
            inv.append("bandwidth < 1")
        if g("threshold_scale") is not None and g("threshold_scale") < 0:
            inv.append("negative threshold_scale")
        boundary = g("bandwidth") == 1 or g("threshold_scale") == 0
        return inv, boundary, 2 * max(g("bandwidth"), 1), ms_of(g("change_score")), g("bandwidth")
    if name in ("CAPA", "MVCAPA"):
        m = g("min_segment_length")
        if g("collective_penalty_scale") < 0 or g("point_penalty_scale") < 0:
            inv.append("negative penalty scale")
        if m < 2:
            inv.append("min_segment_length < 2")
        if g("max_segment_length") < m:
            inv.append("max_segment_length < min_segment_length")
        boundary = m == 2 or g("max_segment_length") == m or 0 in (g("collective_penalty_scale"),
                                                                   g("point_penalty_scale"))
        return inv, boundary, max(m, 1), ms_of(g("collective_saving")), m
    if name == "StatThresholdAnomaliser":
        if g("stat_lower") > g("stat_upper"):
            inv.append("stat_lower > stat_upper")
        inner = g("change_detector")
        b = inner["kw"].get("bandwidth")
        mn = 2 * b if b else 2 * inner["kw"].get("min_segment_length", 1)
        return inv, g("stat_lower") == g("stat_upper") or b == 1, mn, 1, 1
    raise KeyError(name)


def grid_points(tier):
    ps = [1, 2] if tier == "quick" else [1, 2, 3]
    for name, axes in GRID.items():
        keys = list(axes)
        for combo in itertools.product(*[axes[k] for k in keys]):
            kw = dict(zip(keys, combo))
            if "bounds" in kw:
                lo, hi = kw.pop("bounds")
                kw.update(stat_lower=lo, stat_upper=hi)
            m = kw.get("min_segment_length", 1)
            for k in ("max_interval_length", "max_segment_length"):
                if isinstance(kw.get(k), str):
                    kw[k] = {"2m-1": 2 * m - 1, "2m": 2 * m, "2m+1": 2 * m + 1, "m-1": m - 1, "m": m,
                             "m+5": m + 5}[kw[k]]
            for p in ([1] if name == "StatThresholdAnomaliser" else ps):
                for nrel in ("min-1", "min", "min+1", "3min"):
                    for nan in ("clean", "nan-fit", "nan-predict"):
                        yield {"kind": "grid", "det": {"cls": name, "kw": kw}, "p": p, "nrel": nrel, "nan": nan}


def run_pipeline(spec, Xfit, Xpred):
    """Outcome of Detector(**params) -> fit -> predict taken at the public boundary."""
    stage = "construct"
    try:
        det = build(spec)
        stage = "fit"
        det.fit(Xfit)
        stage = "predict"
        y = det.predict(Xpred)
        return "completed", None, det, y
    except (CaseTimeout, CpuBudgetExceeded):
        raise
    except ValueError as ex:
        return f"ValueError@{stage}", str(ex), None, None
    except RuntimeError as ex:
        return f"RuntimeError@{stage}", str(ex), None, None
    except Exception as ex:
        return f"{type(ex).__name__}@{stage}", str(ex), None, None


def grid_case(ctx, r):
    spec, p = r["det"], r["p"]
    name, kw = spec["cls"], spec["kw"]
    inv, boundary, min_n, cost_ms, seglen = classify(name, kw, p)
    n = {"min-1": min_n - 1, "min": min_n, "min+1": min_n + 1, "3min": 3 * min_n}[r["nrel"]]
    n = max(n, 1)
    rng = np.random.default_rng([min_n, p, len(name), n])
    X = rng.standard_normal((n, p))
    if n >= 4:
        X[n // 2:] += 6.0
    Xfit, Xpred = X.copy(), X.copy()
    if r["nan"] != "clean":
        (Xfit if r["nan"] == "nan-fit" else Xpred)[int(rng.integers(n)), int(rng.integers(p))] = np.nan
        ctx.stat("nan_cases")
    if name == "StatThresholdAnomaliser":
        import pandas as pd

        Xfit, Xpred = pd.Series(Xfit[:, 0]), pd.Series(Xpred[:, 0])
    ctx.case()
    label = f"{short(spec)} n={n} ({r['nrel']}) p={p} {r['nan']}"
    sub = f"grid-{name}"
    I.drain()
    try:
        with cpu_budget(CPU_BUDGET):
            outcome, msg, det, y = run_pipeline(spec, Xfit, Xpred)
    except CpuBudgetExceeded:
        ctx.violation(sub, "did-not-complete", f"{label}: no outcome within {CPU_BUDGET} s of CPU time", r)
        return
    except CaseTimeout:
        ctx.stat("wall_clock_watchdog_fired")  # busy machine: no verdict
        return
    hits = I.drain()
    data_invalid = []
    if n < min_n:
        data_invalid.append("n below the documented minimum")
    if r["nan"] != "clean":
        data_invalid.append("missing values")
    cost_too_long = cost_ms > seglen or (name == "PELT" and cost_ms > kw["min_segment_length"])
    if inv or data_invalid:
        why = "; ".join(inv + data_invalid)
        # hyper-parameters and training data must be rejected when constructing or fitting;
        # only bad predict data may be rejected as late as predict
        late_ok = not inv and n >= min_n and r["nan"] == "nan-predict"
        if outcome.startswith("ValueError") and (late_ok or not outcome.endswith("@predict")):
            ctx.stat("grid_invalid_rejected")
        elif outcome.startswith("ValueError"):
            ctx.violation(sub, f"rejected-too-late[{(inv + data_invalid)[0]}]",
                          f"{label}: invalid ({why}) but constructing and fitting succeeded; the "
                          f"ValueError only came from predict: {msg}", r)
        elif outcome.startswith("RuntimeError") and any(
                s and s.get("cls") == "GaussianCovCost" for s in kw.values() if isinstance(s, dict)):
            ctx.stat("grid_invalid_runtimeerror_permitted")
        elif outcome == "completed":
            ctx.violation(sub, f"accepted-invalid[{(inv + data_invalid)[0]}]",
                          f"{label}: invalid ({why}) but ran to completion", r)
        else:
            ctx.violation(sub, f"wrong-exception[{(inv + data_invalid)[0]}]",
                          f"{label}: invalid ({why}) but raised {outcome}: {msg}", r)
    else:
        if outcome == "completed":
            ctx.stat("grid_valid_completed")
            probs = [h["message"] for h in hits if h["contract"] == "K1"] or problems(det, n, p, y)
            for pr in probs[:1]:
                ctx.violation(sub, "malformed-output", f"{label}: {pr}", r)
        elif outcome.startswith("ValueError") and cost_too_long:
            ctx.stat("grid_valid_cost_min_size_valueerror")
        elif outcome.startswith("RuntimeError") and any(
                isinstance(s, dict) and s.get("cls") == "GaussianCovCost" for s in kw.values()):
            ctx.stat("grid_valid_documented_runtimeerror")
        else:
            ctx.violation(sub, f"valid-config-failed[{outcome.split('@')[0]}]",
                          f"{label}: inside the documented domain but {outcome}: {msg}", r)
    if boundary or r["nrel"] != "3min":
        ctx.nt(digest(r))
    if boundary and r["nrel"] == "min":
        ctx.sample({"grid_point": label, "outcome": outcome}, cap=4)


def zoo_recipe(rng, tier, which):
    spec, nmin, p = random_detector(rng, dense_events=bool(rng.random() < 0.5), pmax=3, which=which)
    r = rng.random()
    hi = 40 if tier == "quick" else 100
    if which == "CircularBinarySegmentation":
        hi = 25
    n = nmin if r < 0.15 else (nmin + 1 if r < 0.25 else int(rng.integers(nmin, nmin + hi)))
    kind = ALL_KINDS[int(rng.integers(len(ALL_KINDS)))]
    X, _ = gen_data(rng, n, p, kind)
    return {"kind": "zoo", "det": spec, "X": X, "data_kind": kind}


def _min_sizes(spec, p):
    """largest min_size among the scorers nested in a spec"""
    out = 1
    if isinstance(spec, dict):
        if spec.get("cls") == "GaussianVarCost":
            out = 2
        if spec.get("cls") == "GaussianCovCost":
            out = p + 1
        for v in spec.get("kw", {}).values():
            out = max(out, _min_sizes(v, p))
    return out


def zoo_case(ctx, r):
    import pandas as pd

    X = np.asarray(r["X"], dtype=float)
    n, p = X.shape
    spec = r["det"]
    name = spec["cls"]
    data = pd.Series(X[:, 0]) if name == "StatThresholdAnomaliser" else X
    ctx.case()
    ctx.stat(f"zoo[{name}]")
    label = f"{short(spec)} X[{n}x{p}] data={r['data_kind']}"
    sub = f"zoo-{name}"
    I.drain()
    try:
        with cpu_budget(CPU_BUDGET):
            outcome, msg, det, y = run_pipeline(spec, data, data)
    except CpuBudgetExceeded:
        ctx.violation(sub, "did-not-complete", f"{label}: no outcome within {CPU_BUDGET} s of CPU time", r)
        return
    except CaseTimeout:
        ctx.stat("wall_clock_watchdog_fired")
        return
    hits = I.drain()
    if outcome == "completed":
        ctx.stat("zoo_completed")
        for pr in ([h["message"] for h in hits if h["contract"] == "K1"] or problems(det, n, p, y))[:1]:
            ctx.violation(sub, "malformed-output", f"{label}: {pr}", r)
    elif outcome.startswith("RuntimeError") and "GaussianCovCost" in short(spec):
        ctx.stat("zoo_documented_runtimeerror")
    else:
        ctx.violation(sub, f"valid-config-failed[{outcome.split('@')[0]}]",
                      f"{label}: inside the documented domain but {outcome}: {msg}", r)
    if n <= 2 * 5:
        ctx.nt(digest([spec, r["X"]]))


def degenerate_recipe(rng):
    """Threshold-based detectors whose threshold is tuned (or 0) on data with flat stretches of values
    that are not exactly representable: every cost-based score is 0 only up to rounding error there,
    so scores and the tuned threshold can be slightly negative.  Still 'every finite input'."""
    which = ["SeededBinarySegmentation", "CircularBinarySegmentation", "MovingWindow",
             "StatThresholdAnomaliser"][int(rng.integers(4))]
    sc = [S("L2Cost", param=None), S("GaussianVarCost", param=None),
          S("ChangeScore", cost=S("L1Cost", param=None)), None][int(rng.integers(4))]
    msl = int(rng.integers(1, 4))
    if sc is not None and sc["cls"] == "GaussianVarCost":
        msl = max(msl, 2)
    ts = None if rng.random() < 0.8 else 0.0
    level = float([1e-8, 0.01, 0.2, 0.6][int(rng.integers(4))])
    p = 1 if which == "StatThresholdAnomaliser" else int(rng.integers(1, 4))

    def sbs():
        return S("SeededBinarySegmentation", change_score=sc, threshold_scale=ts, level=level,
                 min_segment_length=msl, max_interval_length=int(rng.integers(2 * msl, 2 * msl + 30)),
                 growth_factor=float([1.1, 1.5, 2.0][int(rng.integers(3))]))

    if which == "SeededBinarySegmentation":
        spec, nmin = sbs(), 2 * msl
    elif which == "CircularBinarySegmentation":
        a = sc
        if a is not None and a["cls"] == "ChangeScore":
            a = S("LocalAnomalyScore", cost=S("L1Cost", param=None))
        spec = S("CircularBinarySegmentation", anomaly_score=a, threshold_scale=ts, level=level,
                 min_segment_length=msl, max_interval_length=int(rng.integers(2 * msl, 2 * msl + 16)),
                 growth_factor=float([1.1, 1.5, 2.0][int(rng.integers(3))]))
        nmin = 2 * msl
    elif which == "MovingWindow":
        b = max(msl, int(rng.integers(1, 7)))
        spec = S("MovingWindow", change_score=sc, bandwidth=b, threshold_scale=ts, level=max(level, 0.01),
                 min_detection_interval=1)
        nmin = 2 * b
    else:
        lo = float([-1.0, 0.0, 0.2][int(rng.integers(3))])
        spec = S("StatThresholdAnomaliser", change_detector=sbs(), stat={"fn": "np.mean"},
                 stat_lower=lo, stat_upper=lo + 1.0)
        nmin = 2 * msl
    n = int(rng.integers(max(nmin, 3), max(nmin, 3) + 40))
    kind = ["flat", "steps"][int(rng.integers(2))]
    X, _ = gen_data(rng, n, p, kind)
    return {"kind": "degenerate", "det": spec, "X": X, "data_kind": kind}


def extreme_recipe(rng, which):
    """Any valid zoo configuration on finite data of extreme magnitude: squares overflow to inf or
    underflow to 0, offsets cancel every digit.  Still 'every finite input': must complete (or raise
    the documented errors) with well-formed output - NaN / inf scores must not leak into the result."""
    spec, nmin, p = random_detector(rng, dense_events=True, pmax=3, which=which)
    n = int(rng.integers(nmin, nmin + 30))
    base = ["mean_changes", "noise", "spikes", "flat", "steps"][int(rng.integers(5))]
    X, _ = gen_data(rng, n, p, base)
    mode = ["huge", "big_offset", "tiny", "mixed", "denormal"][int(rng.integers(5))]
    if mode == "huge":
        X = X * float([1e100, 1e154, 1e160, 1e300][int(rng.integers(4))])
    elif mode == "big_offset":
        X = X + float([1e8, 1e12, 1e15][int(rng.integers(3))])
    elif mode == "tiny":
        X = X * float([1e-100, 1e-160, 1e-200][int(rng.integers(3))])
    elif mode == "mixed":
        X[::3] *= 1e150
    else:
        X = X * 1e-310
    return {"kind": "degenerate", "det": spec, "X": X, "data_kind": f"{base}*{mode}", "extreme": True}


def degenerate_case(ctx, r):
    """Same oracle as the zoo (valid configuration => completes, well-formed), shorter time limit."""
    import pandas as pd

    X = np.asarray(r["X"], dtype=float)
    n, p = X.shape
    spec = r["det"]
    name = spec["cls"]
    data = pd.Series(X[:, 0]) if name == "StatThresholdAnomaliser" else X
    ctx.case()
    ctx.stat("extreme_cases" if r.get("extreme") else "degenerate_cases")
    label = f"{short(spec)} X[{n}x{p}] data={r['data_kind']}"
    sub = f"zoo-{name}"
    I.drain()
    try:
        with cpu_budget(CPU_BUDGET_SMALL), np.errstate(all="ignore"):
            outcome, msg, det, y = run_pipeline(spec, data, data)
    except CpuBudgetExceeded:
        ctx.violation(sub, "did-not-complete", f"{label}: no outcome within {CPU_BUDGET_SMALL} s of CPU time "
                      f"(n = {n}; such cases complete in well under 5 s)", r)
        return False
    except CaseTimeout:
        ctx.stat("wall_clock_watchdog_fired")
        return True
    hits = I.drain()
    if outcome == "completed":
        ctx.stat("degenerate_completed")
        thr = getattr(det, "threshold_", None)
        if thr is None and hasattr(det, "change_detector_"):
            thr = getattr(det.change_detector_, "threshold_", None)
        if thr is not None and thr < 0:
            ctx.stat("degenerate_negative_tuned_threshold")
            ctx.nt(digest([spec, r["X"]]))
        for pr in ([h["message"] for h in hits if h["contract"] == "K1"] or problems(det, n, p, y))[:1]:
            ctx.violation(sub, "malformed-output", f"{label}: {pr}", r)
    elif outcome.startswith("RuntimeError") and "GaussianCovCost" in short(spec):
        ctx.stat("zoo_documented_runtimeerror")
    else:
        ctx.violation(sub, f"valid-config-failed[{outcome.split('@')[0]}]",
                      f"{label}: inside the documented domain but {outcome}: {msg}", r)
    return True


def exec_case(ctx, r):
    if r["kind"] == "grid":
        grid_case(ctx, r)
    elif r["kind"] == "degenerate":
        return degenerate_case(ctx, r)
    else:
        zoo_case(ctx, r)


def run(ctx):
    I.install()
    for i, r in enumerate(grid_points(ctx.tier)):
        if i % ctx.nshards == ctx.shard:
            exec_case(ctx, r)
    for i in range(ZOO_CASES[ctx.tier]):
        exec_case(ctx, zoo_recipe(ctx.rng, ctx.tier, DETECTORS[i % len(DETECTORS)]))
    stuck = 0
    for i in range(DEGENERATE_CASES[ctx.tier]):
        if exec_case(ctx, degenerate_recipe(ctx.rng)) is False:
            stuck += 1
            if stuck >= 3:  # three witnesses per shard are enough; each costs its full time limit
                break
    for i in range(DEGENERATE_CASES[ctx.tier] // 2):
        if exec_case(ctx, extreme_recipe(ctx.rng, DETECTORS[i % len(DETECTORS)])) is False:
            stuck += 1
            if stuck >= 4:
                break


def replay(ctx, sub, recipe):
    I.install()
    exec_case(ctx, recipe)
