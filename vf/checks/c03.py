"""C03 - CAPA/MVCAPA anomalies maximise the total penalised saving."""
import numpy as np

from vf import history as H
from vf import instrument as I
from vf.core import digest
from vf.gen import gen_data
from vf.models import capa as CM
from vf.spec import S, build, short
from vf.zoo import capa, mvcapa

SHARDS = {"quick": 16, "thorough": 16}
WATCHDOG = {"quick": 1800, "thorough": 10800}
CASES = {"quick": 220, "thorough": 2500}
FLOORS = {
    "quick": {"distinct_nontrivial": 830, "cases[CAPA]": 700, "cases[MVCAPA]": 700,
              "prefix_scores_compared": 30000, "cases_with_point_anomaly": 780,
              "cases_with_pruned_start": 730, "ignore_twins": 1300},
    "thorough": {"distinct_nontrivial": 3000, "prefix_scores_compared": 300000},
}
ANCHORS = [
    "skchange.anomaly_detectors.mvcapa.run_base_capa",
    "skchange.anomaly_detectors.mvcapa.penalise_savings",
    "skchange.anomaly_detectors.mvcapa.optimise_savings",
    "skchange.anomaly_detectors.mvcapa.get_anomalies",
    "skchange.anomaly_detectors.mvcapa.run_mvcapa",
    "skchange.anomaly_detectors.capa.run_capa",
    "skchange.anomaly_detectors.capa.CAPA._get_penalty_components",
]
LEVEL = "exploration"
RULE = (
    "case = CAPA or MVCAPA configuration from the zoo (savings: L2Saving, Saving(L2Cost(0)), "
    "Saving(GaussianVarCost(0,1)), integer sub-additive ClosureTableSaving; penalties: CAPA's own / "
    "dense / sparse / intermediate / combined / 7 user callables; scales 0..5; 2<=m<=M, M from m up) "
    "x seeded data with spikes, adjacent, boundary and nested (short strong inside long weak) anomalies, "
    "n from m to 45 (120 thorough), p<=4 (CAPA) / <=6 (MVCAPA). "
    "Oracle: unpruned reference DP over savings obtained from FRESH clones through public evaluate() "
    "and the penalties exposed by the detector (CAPA) or its public penalty functions (MVCAPA): "
    "transform_scores[t] == F(t+1) for every prefix, scores non-negative and non-decreasing, the "
    "reported anomalies re-evaluated under the same penalties == final score, and the "
    "ignore_point_anomalies twin == same set minus its length-1 anomalies. Premise (sub-additivity) "
    "checked on the table; failing cases discarded and counted. Non-trivial = >=1 anomaly reported "
    "and (trace shows a pruned start or p>1 with non-constant betas); distinct by recipe digest."
)
ASSUMPTIONS = ["values compared within 1e-9*(1+|F|); integer tables are exact",
               "any maximiser is accepted (only values are compared)"]


def make_recipe(rng, tier, which=None):
    which = which or ("CAPA" if rng.random() < 0.5 else "MVCAPA")
    p = int(rng.integers(1, 5)) if which == "CAPA" else int(rng.integers(1, 7))
    spec, m = (capa if which == "CAPA" else mvcapa)(rng, p, dense_events=bool(rng.random() < 0.7))
    nmax = 45 if tier == "quick" else (120 if rng.random() < 0.2 else 60)
    n = int(rng.integers(m, nmax + 1))
    if rng.random() < 0.08:
        n = m + int(rng.integers(0, 2))
    kind = ["spikes", "collective", "noise", "small_alphabet", "mean_changes", "weak_changes",
            "dyadic", "heavy", "collective", "spikes", "nested", "nested", "nested", "flat", "steps"][
        int(rng.integers(15))]
    X, _ = gen_data(rng, n, p, kind)
    if spec["kw"]["collective_saving"] and spec["kw"]["collective_saving"]["cls"] == "GaussianVarCost" \
            and kind in ("small_alphabet", "dyadic"):
        X = X + 1e-2 * rng.standard_normal(X.shape)
    int_dtype = bool(rng.random() < 0.12)
    if int_dtype:
        X = np.round(2 * X)
    elif rng.random() < 0.12 and not (spec["kw"]["collective_saving"] or {}).get("cls", "").startswith("Closure"):
        # the same signal in a small unit: savings of order unit^2, so only (near-)zero penalties give
        # anomalies; no absolute tolerance may hide them
        X = X * float(rng.choice([1e-3, 1e-5, 1e-7]))
        kind = kind + "*tiny"
        for k in ("collective_penalty_scale", "point_penalty_scale"):
            spec["kw"][k] = float(rng.choice([0.0, 0.0, 1e-14, 1e-10]))
    return {"det": spec, "X": X, "data_kind": kind, "int_dtype": int_dtype, "history": H.pick(rng),
            "hseed": int(rng.integers(2 ** 31)), "frame": "df" if rng.random() < 0.5 else None}


def penalties(det, name, n, p, det_spec=None, X=None):
    from skchange.anomaly_detectors.mvcapa import capa_penalty_factory

    if name == "CAPA":
        # the penalties the user configured: the spec's scales times the fitted penalties of a twin built with
        # unit scales on data of the same shape (CAPA's penalties depend on the training shape only and are
        # proportional to the scale, C15) -- not the judged object's own attributes, which a defect in the
        # handling of the scales would falsify together with the result
        kw = dict(det_spec["kw"], collective_penalty_scale=1.0, point_penalty_scale=1.0)
        unit = build({"cls": "CAPA", "kw": kw}).fit(np.zeros((n, p)) if X is None else X)
        return ((float(det_spec["kw"]["collective_penalty_scale"]) * float(unit.collective_penalty_), np.zeros(1)),
                (float(det_spec["kw"]["point_penalty_scale"]) * float(unit.point_penalty_), np.zeros(1)))
    from skchange.anomaly_scores import L2Saving, to_saving

    cs, ps = build(det_spec["kw"].get("collective_saving")), build(det_spec["kw"].get("point_saving"))
    kc = to_saving(L2Saving() if cs is None else cs).get_param_size(1)
    kp = to_saving(L2Saving() if ps is None else ps).get_param_size(1)
    a, b = capa_penalty_factory(det.collective_penalty)(n, p, kc, scale=det.collective_penalty_scale)
    a2, b2 = capa_penalty_factory(det.point_penalty)(n, p, kp, scale=det.point_penalty_scale)
    return (float(a), np.asarray(b, dtype=float)), (float(a2), np.asarray(b2, dtype=float))


def saving_tables(spec, X, m, M):
    from skchange.anomaly_scores import L2Saving, to_saving

    n = X.shape[0]
    cs = build(spec["kw"].get("collective_saving"))
    ps = build(spec["kw"].get("point_saving"))
    cs = to_saving(L2Saving() if cs is None else cs).fit(X)
    ps = to_saving(L2Saving() if ps is None else ps).fit(X)
    pairs = [(s, e) for s in range(n) for e in range(s + m, min(n, s + M) + 1)]
    coll = {}
    if pairs:
        vals = cs.evaluate(np.array(pairs, dtype=np.int64))
        coll = {pr: vals[i] for i, pr in enumerate(pairs)}
    pv = ps.evaluate(np.column_stack((np.arange(n), np.arange(1, n + 1))))
    return coll, [pv[t] for t in range(n)]


def premise_ok(coll, n, m, M):
    """sub-additivity S(s,T) <= S(s,e)+S(e,T) on the triples present in the table."""
    for (s, T), v in coll.items():
        for e in range(s + m, T - m + 1):
            a, b = coll.get((s, e)), coll.get((e, T))
            if a is None or b is None:
                continue
            if np.any(v > a + b + 1e-9 * (1 + np.abs(a) + np.abs(b))):
                return False
    return True


def exec_case(ctx, r):
    Xf = np.asarray(r["X"], dtype=float)
    X = Xf.astype(np.int64) if r.get("int_dtype") else Xf  # same numbers, integer dtype
    n, p = X.shape
    spec = r["det"]
    name = spec["cls"]
    m, M = spec["kw"]["min_segment_length"], spec["kw"]["max_segment_length"]
    ctx.case()
    if r.get("int_dtype"):
        ctx.stat("cases[int64 data]")
    ctx.stat(f"cases[{name}]")
    label = f"{short(spec)} X[{n}x{p}] data={r['data_kind']}"
    sub = f"optimality-{name}"
    I.drain()
    I.start_trace()
    try:
        # the judged calls may come after a history on the caller's same object (vf/history.py):
        # Xarg holds exactly X's values and X's shape (penalties depend on the training shape)
        hist = r.get("history") if r.get("history") in ("same_object", "inplace", "reconfigured") else None
        det, Xarg = H.prepare(build(spec), X, hist, r.get("hseed", 0), m, r.get("frame"))
        ctx.stat(f"history[{hist}]")
        if r.get("hseed", 0) % 2:
            # transform_scores FIRST: it must stand on its own (the history may have left the scores
            # of other values with the same index behind)
            scores = np.asarray(det.transform_scores(Xarg), dtype=float).ravel().copy()
            y = det.predict(Xarg)
        else:
            y = det.predict(Xarg)
            scores = np.asarray(det.transform_scores(Xarg), dtype=float).ravel()
    except Exception as ex:
        I.stop_trace()
        ctx.violation(sub, "exception", f"{label}: {type(ex).__name__}: {ex}", r)
        return
    trace = I.stop_trace()
    try:
        pen_c, pen_p = penalties(det, name, n, p, spec, Xf)
        coll, point = saving_tables(spec, Xf, m, M)
    except Exception as ex:
        ctx.stat(f"oracle_unavailable[{type(ex).__name__}]")
        return
    if not premise_ok(coll, n, m, M):
        ctx.stat("premise_failed_discarded")
        return
    F, back = CM.reference_dp(coll, point, n, m, M, pen_c, pen_p)
    # purely relative (savings scale with the square of the unit of measurement): reference and
    # implementation add up the same saving / penalty values in another order
    smax = max((float(np.abs(v).sum()) for v in coll.values()), default=0.0)
    tol = 1e-9 * n * (np.abs(F).max() + smax) + 1e-300

    # trace facts (evidence only): was any start pruned by the implementation?
    batch_sizes = [len(c) for (cls, c) in trace if c.ndim == 2 and c.shape[1] == 2 and len(c) >= 1]
    pruned = False
    for (cls, c) in trace:
        if c.ndim == 2 and c.shape[1] == 2 and len(c) > 1 and len(set(c[:, 1].tolist())) == 1:
            t_end = int(c[0, 1])
            expected = min(t_end - m + 1, M - m + 1)
            if len(c) < expected:
                pruned = True
                break
    if pruned:
        ctx.stat("cases_with_pruned_start")

    if scores.shape != (n,):
        ctx.violation(sub, "score-shape", f"{label}: scores shape {scores.shape} != ({n},)", r)
        return
    ctx.stat("prefix_scores_compared", n)
    bad = np.flatnonzero(np.abs(scores - F[1:]) > tol)
    if bad.size:
        t = int(bad[0])
        ctx.violation(sub, "prefix-optimum", f"{label}: cumulative score at t={t} is {scores[t]} but the "
                      f"optimal total penalised saving of X[0:{t + 1}] is {F[t + 1]} "
                      f"(first of {bad.size} differing prefixes; penalties c={pen_c[0]:.4g},"
                      f"{np.round(pen_c[1], 4).tolist()} p={pen_p[0]:.4g},{np.round(pen_p[1], 4).tolist()})",
                      r, {"t": t})
    if np.any(scores < -tol) or np.any(np.diff(scores) < -tol):
        ctx.violation(sub, "score-not-monotone", f"{label}: scores negative or decreasing", r)

    kind_ok = "ilocs" in getattr(y, "columns", [])
    if not kind_ok:
        ctx.violation(sub, "output-format", f"{label}: predict output without ilocs", r)
        return
    arr = y["ilocs"].array
    anoms = list(zip(np.asarray(arr.left).astype(int).tolist(), np.asarray(arr.right).astype(int).tolist()))
    ignore = spec["kw"].get("ignore_point_anomalies", False)
    if any(rr - l == 1 for l, rr in anoms):
        ctx.stat("cases_with_point_anomaly")
    if any(a[1] == b[0] for a, b in zip(anoms[:-1], anoms[1:])):
        ctx.stat("cases_with_adjacent_anomalies")

    # twin with the flag flipped: same set, exactly the point anomalies omitted
    try:
        twin = build({"cls": name, "kw": dict(spec["kw"], ignore_point_anomalies=not ignore)}).fit(X)
        ty = twin.predict(X)
        tarr = ty["ilocs"].array
        tanoms = list(zip(np.asarray(tarr.left).astype(int).tolist(),
                          np.asarray(tarr.right).astype(int).tolist()))
        full, reduced = (tanoms, anoms) if ignore else (anoms, tanoms)
        ctx.stat("ignore_twins")
        if [a for a in full if a[1] - a[0] != 1] != reduced:
            ctx.violation(sub, "ignore-point-anomalies", f"{label}: with ignore_point_anomalies the "
                          f"output {reduced} is not the full output {full} minus its point anomalies", r)
    except Exception as ex:
        ctx.violation(sub, "exception", f"{label}: twin raised {type(ex).__name__}: {ex}", r)
        return

    tot = CM.evaluate_anomalies(full, coll, point, m, M, pen_c, pen_p)
    if tot is None:
        ctx.violation(sub, "inadmissible-anomaly", f"{label}: reported anomalies {full} are not all of "
                      f"length 1 or within [{m},{M}]", r)
    elif abs(tot - scores[-1]) > tol:
        ctx.violation(sub, "anomalies-vs-final-score", f"{label}: reported anomalies {full} re-evaluated "
                      f"under the same penalties give {tot}, final score is {scores[-1]} "
                      f"(optimum {F[-1]})", r)
    for h in I.drain():
        if h["contract"] == "K1":
            ctx.violation("contract-K1", "malformed-output", f"{label}: {h['message']}", r)
    nonconst = pen_c[1].size > 1 and np.ptp(pen_c[1]) > 0
    if len(full) >= 1 and (pruned or (p > 1 and nonconst)):
        ctx.nt(digest([spec, r["X"]]))
    ctx.sample({"case": label, "anomalies": full, "final_score": float(scores[-1]),
                "evaluate_batches": len(batch_sizes), "pruned_start_seen": pruned}, cap=3)


def run(ctx):
    I.install()
    for i in range(CASES[ctx.tier]):
        exec_case(ctx, make_recipe(ctx.rng, ctx.tier, "CAPA" if i % 2 else "MVCAPA"))


def replay(ctx, sub, recipe):
    I.install()
    exec_case(ctx, recipe)
