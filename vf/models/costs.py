"""Reference cost models computed directly from the rows X[s:e] (property C01),
returned as intervals [lo, hi] that bound what a correct prefix-sum
implementation may return (DESIGN §2).  Written from the property statement,
not from the implementation."""
import numpy as np

EPS = 2.0 ** -53
LD = np.longdouble
TWO_PI = 2.0 * np.pi
VAR_FLOOR = 1e-16


class DataTol:
    """Rounding-error budget of sequentially accumulated prefix sums of X and X**2."""

    def __init__(self, X):
        X = np.asarray(X, dtype=np.float64)
        n = X.shape[0]
        self.n = n
        self.d1 = 8.0 * n * EPS * np.abs(X).sum(axis=0) + 1e-300
        self.d2 = 8.0 * n * EPS * (X ** 2).sum(axis=0) + 1e-300
        self.Xl = X.astype(LD)


def _sums(tol, s, e):
    seg = tol.Xl[s:e]
    return seg.sum(axis=0), (seg * seg).sum(axis=0), e - s


def l2_optim(tol, s, e):
    S1, S2, m = _sums(tol, s, e)
    mean = S1 / m
    val = ((tol.Xl[s:e] - mean) ** 2).sum(axis=0)  # residual sum of squares about the mean
    w = tol.d2 + (2 * np.abs(S1) * tol.d1 + tol.d1 ** 2) / m + 16 * EPS * (np.abs(S2) + S1 ** 2 / m)
    return np.asarray(val - w, dtype=float), np.asarray(val + w, dtype=float)


def l2_fixed(tol, s, e, mean):
    mean = np.broadcast_to(np.asarray(mean, dtype=float).reshape(-1), (tol.Xl.shape[1],))
    S1, S2, m = _sums(tol, s, e)
    val = ((tol.Xl[s:e] - mean.astype(LD)) ** 2).sum(axis=0)
    w = tol.d2 + 2 * np.abs(mean) * tol.d1 + 16 * EPS * (
        np.abs(S2) + 2 * np.abs(mean * S1) + m * mean ** 2)
    return np.asarray(val - w, dtype=float), np.asarray(val + w, dtype=float)


def gvar_optim(tol, s, e):
    S1, S2, m = _sums(tol, s, e)
    mean = S1 / m
    v = ((tol.Xl[s:e] - mean) ** 2).sum(axis=0) / m
    dv = (tol.d2 + (2 * np.abs(S1) * tol.d1 + tol.d1 ** 2) / m) / m + 16 * EPS * (
        S2 / m + mean ** 2)
    vlo = np.maximum(np.asarray(v - dv, dtype=float), VAR_FLOOR)
    vhi = np.maximum(np.asarray(v + dv, dtype=float), VAR_FLOOR)
    lo = m * np.log(TWO_PI * vlo) + m
    hi = m * np.log(TWO_PI * vhi) + m
    slack = 1e-12 * (np.maximum(np.abs(lo), np.abs(hi)) + m)
    return lo - slack, hi + slack


def gvar_fixed(tol, s, e, mean, var):
    p = tol.Xl.shape[1]
    mean = np.broadcast_to(np.asarray(mean, dtype=float).reshape(-1), (p,))
    var = np.broadcast_to(np.asarray(var, dtype=float).reshape(-1), (p,))
    S1, S2, m = _sums(tol, s, e)
    Q = np.asarray(((tol.Xl[s:e] - mean.astype(LD)) ** 2).sum(axis=0), dtype=float)
    wq = tol.d2 + 2 * np.abs(mean) * tol.d1 + 16 * EPS * np.asarray(
        np.abs(S2) + 2 * np.abs(mean * S1) + m * mean ** 2, dtype=float)
    base = m * np.log(TWO_PI * var)
    val = base + Q / var
    w = wq / var + 1e-12 * (np.abs(base) + Q / var + m)
    return val - w, val + w


def gcov_optim(X, s, e):
    """Returns (val, tol, status) with status in {'ok', 'singular', 'must_raise'}."""
    seg = np.asarray(X[s:e], dtype=float)
    m, p = seg.shape
    # exactly constant integer-valued column: sample covariance exactly singular
    const_cols = [j for j in range(p) if np.all(seg[:, j] == seg[0, j])
                  and float(seg[0, j]).is_integer() and abs(seg[0, j]) * m < 2 ** 40]
    if const_cols:
        return None, None, "must_raise"
    c = seg - seg.mean(axis=0)
    cov = (c.T @ c) / m
    lam = np.linalg.eigvalsh(cov)
    if lam.min() <= 0 or lam.max() / lam.min() > 1e10:
        return None, None, "singular"
    cond = lam.max() / lam.min()
    logdet = float(np.sum(np.log(lam)))
    val = m * p * np.log(TWO_PI) + m * logdet + m * p
    scale = float(np.abs(seg).max()) ** 2 / lam.min() if lam.min() > 0 else np.inf
    tol = m * 256 * p * EPS * max(cond, scale) + 1e-9 * (abs(val) + 1)
    return val, tol, "ok"


def gcov_fixed(X, s, e, mean, cov):
    seg = np.asarray(X[s:e], dtype=float)
    m, p = seg.shape
    mean = np.broadcast_to(np.asarray(mean, dtype=float).reshape(-1), (p,))
    cov = np.asarray(cov, dtype=float)
    if cov.ndim == 0:
        cov = float(cov) * np.eye(p)
    lam = np.linalg.eigvalsh(cov)
    cond = lam.max() / lam.min()
    logdet = float(np.sum(np.log(lam)))
    c = seg - mean
    quad = float(np.sum(c * np.linalg.solve(cov, c.T).T))
    val = m * p * np.log(TWO_PI) + m * logdet + quad
    tol = 256 * p * EPS * cond * (abs(quad) + m * abs(logdet) + 1) + 1e-9 * (abs(val) + 1)
    return val, tol


# ---------------------------------------------------------------------------
def cost_interval(kind, param, X, tol, s, e):
    """(lo, hi, status) for a built-in cost `kind` in {'L2Cost','GaussianVarCost',
    'GaussianCovCost'} with plain-python `param` (None = optimal)."""
    if kind == "L2Cost":
        lo, hi = l2_optim(tol, s, e) if param is None else l2_fixed(tol, s, e, param)
        return lo, hi, "ok"
    if kind == "GaussianVarCost":
        if param is None:
            lo, hi = gvar_optim(tol, s, e)
        else:
            lo, hi = gvar_fixed(tol, s, e, param[0], param[1])
        return lo, hi, "ok"
    if kind == "GaussianCovCost":
        if param is None:
            val, t, status = gcov_optim(X, s, e)
            if status != "ok":
                return None, None, status
        else:
            val, t = gcov_fixed(X, s, e, param[0], param[1])
        return np.array([val - t]), np.array([val + t]), "ok"
    raise KeyError(kind)


def min_size(kind, p):
    return {"L2Cost": 1, "GaussianVarCost": 2, "GaussianCovCost": p + 1}[kind]
