"""Greedy selection over a *reported* interval table (C07, C09), exploring exact
score ties as non-determinism (the properties do not fix a tie-break)."""
import numpy as np


def greedy_outcomes(scores, picks, removes, threshold, cap=64):
    """All outcomes of: repeat { take a remaining row of maximal score while that
    score > threshold; emit picks[row]; deactivate every row r with removes(row, r) }.

    scores: 1-D float array.  picks: list of hashable picks per row.
    removes(i) -> boolean mask of rows discarded when row i is chosen.
    Returns a set of frozensets of picks, or None when more than `cap` branches arise.
    """
    scores = np.asarray(scores, dtype=float)
    n = len(scores)
    results = set()
    budget = [cap]
    seen = set()

    def rec(active, chosen):
        key = (active.tobytes(), chosen)
        if key in seen:
            return True
        seen.add(key)
        if not active.any():
            results.add(frozenset(chosen))
            return True
        s = np.where(active, scores, -np.inf)
        top = s.max()
        if not top > threshold:
            results.add(frozenset(chosen))
            return True
        for i in np.flatnonzero(s == top):
            budget[0] -= 1
            if budget[0] < 0:
                return False
            nxt = active & ~removes(int(i))
            nxt[i] = False
            if not rec(nxt, chosen | frozenset([picks[int(i)]])):
                return False
        return True

    ok = rec(np.ones(n, dtype=bool), frozenset())
    return results if ok else None
