"""Structural predicate of property C04, clause by clause from the statement.
`problems(detector, n, p, y)` returns a list of human-readable clause failures."""
import numpy as np
import pandas as pd


def _range_index_ok(y):
    idx = y.index
    return isinstance(idx, pd.RangeIndex) and idx.start == 0 and idx.step == 1 and len(idx) == len(y)


def changepoint_problems(y, n, min_first_last=None, min_gap=None, lo=1, hi=None):
    out = []
    if not isinstance(y, pd.DataFrame):
        return [f"predict returned {type(y).__name__}, not a DataFrame"]
    if "ilocs" not in y.columns:
        return [f"no 'ilocs' column: {list(y.columns)}"]
    if not _range_index_ok(y):
        out.append(f"index is not RangeIndex 0..K-1: {y.index!r}")
    c = y["ilocs"]
    if len(c) == 0:
        return out
    if not pd.api.types.is_integer_dtype(c.dtype):
        out.append(f"ilocs dtype {c.dtype} is not integer")
        return out
    v = c.to_numpy().astype(np.int64)
    if np.any(np.diff(v) <= 0):
        out.append(f"changepoints not strictly increasing: {v.tolist()}")
    hi = n - 1 if hi is None else hi
    if v.min() < lo or v.max() > hi:
        out.append(f"changepoint outside [{lo}, {hi}] (n={n}): {v.tolist()}")
    if min_gap is not None:
        seg = np.diff(np.concatenate(([0], v, [n])))
        if np.any(seg < min_gap):
            out.append(f"segment shorter than min_segment_length={min_gap}: cpts={v.tolist()} n={n}")
    return out


def anomaly_problems(y, n, p=None, length_ok=None, strictly_inside=False, need_columns=False):
    out = []
    if not isinstance(y, pd.DataFrame):
        return [f"predict returned {type(y).__name__}, not a DataFrame"]
    for col in ["ilocs", "labels"] + (["icolumns"] if need_columns else []):
        if col not in y.columns:
            return [f"no '{col}' column: {list(y.columns)}"]
    if not _range_index_ok(y):
        out.append(f"index is not RangeIndex 0..K-1: {y.index!r}")
    K = len(y)
    if K == 0:
        return out
    arr = y["ilocs"].array
    if not isinstance(arr.dtype, pd.IntervalDtype):
        return out + [f"ilocs dtype {arr.dtype} is not interval"]
    if arr.closed != "left":
        out.append(f"intervals closed={arr.closed!r}, not left-closed")
    if not pd.api.types.is_integer_dtype(arr.left.dtype):
        out.append(f"interval endpoints of dtype {arr.left.dtype}, not integer")
    L = np.asarray(arr.left).astype(np.int64)
    R = np.asarray(arr.right).astype(np.int64)
    iv = list(zip(L.tolist(), R.tolist()))
    if np.any(R <= L):
        out.append(f"empty or reversed interval: {iv}")
    if L.min() < 0 or R.max() > n:
        out.append(f"interval outside [0, {n}]: {iv}")
    if np.any(np.diff(L) <= 0):
        out.append(f"intervals not sorted: {iv}")
    if np.any(L[1:] < R[:-1]):
        out.append(f"intervals overlap: {iv}")
    lab = y["labels"].to_numpy()
    if lab.tolist() != list(range(1, K + 1)):
        out.append(f"labels are not 1..K: {lab.tolist()}")
    if strictly_inside and (L.min() <= 0 or R.max() >= n):
        out.append(f"anomaly touches the ends of the data (n={n}): {iv}")
    if length_ok is not None:
        bad = [(l, r) for l, r in iv if r > l and not length_ok(r - l)]
        if bad:
            out.append(f"anomaly length outside the configured limits: {bad}")
    if need_columns:
        for k, cols in enumerate(y["icolumns"]):
            cols = np.asarray(cols)
            if cols.size == 0:
                out.append(f"anomaly {iv[k]}: empty column list")
                continue
            if not np.issubdtype(cols.dtype, np.integer):
                out.append(f"anomaly {iv[k]}: non-integer columns {cols.tolist()}")
                continue
            if len(set(cols.tolist())) != cols.size:
                out.append(f"anomaly {iv[k]}: duplicate columns {cols.tolist()}")
            if cols.min() < 0 or (p is not None and cols.max() >= p):
                out.append(f"anomaly {iv[k]}: column outside 0..{p - 1}: {cols.tolist()}")
    return out


def problems(det, n, p, y):
    """Dispatch on the detector class name (survives refactoring of internals)."""
    name = type(det).__name__
    g = lambda a, d=None: getattr(det, a, d)
    if name == "PELT":
        return changepoint_problems(y, n, min_gap=g("min_segment_length"))
    if name == "SeededBinarySegmentation":
        return changepoint_problems(y, n, min_gap=g("min_segment_length"))
    if name == "MovingWindow":
        b = g("bandwidth")
        return changepoint_problems(y, n, lo=b, hi=n - b)
    if name in ("CAPA", "MVCAPA"):
        m, M = g("min_segment_length"), g("max_segment_length")
        ok = lambda ln: ln == 1 or m <= ln <= M
        return anomaly_problems(y, n, p, length_ok=ok, need_columns=(name == "MVCAPA"))
    if name == "CircularBinarySegmentation":
        m = g("min_segment_length")
        return anomaly_problems(y, n, p, length_ok=lambda ln: ln >= m, strictly_inside=True)
    if name == "StatThresholdAnomaliser":
        return anomaly_problems(y, n, p)
    if hasattr(det, "sparse_to_dense"):
        from skchange.change_detectors.base import ChangeDetector

        if isinstance(det, ChangeDetector):
            return changepoint_problems(y, n)
    return []
