"""Reference models of the derived scores (C06) as intervals, built from the
cost models of vf.models.costs and from direct slice computations."""
import numpy as np

from vf.models import costs as M

LD = np.longdouble


def _sub(a, b):
    """interval a - b"""
    return a[0] - b[1], a[1] - b[0]


def _cost(kind, param, X, tol, s, e):
    lo, hi, status = M.cost_interval(kind, param, X, tol, s, e)
    if status != "ok":
        return None
    return lo, hi


def change_from_cost(kind, param, X, tol, s, k, e):
    full, left, right = (_cost(kind, param, X, tol, s, e), _cost(kind, param, X, tol, s, k),
                         _cost(kind, param, X, tol, k, e))
    if full is None or left is None or right is None:
        return None
    return _sub(_sub(full, left), right)


def cusum(X, tol, s, k, e):
    b, a, m = k - s, e - k, e - s
    Sb = tol.Xl[s:k].sum(axis=0)
    Sa = tol.Xl[k:e].sum(axis=0)
    bw = np.sqrt(LD(a) / (LD(m) * b))
    aw = np.sqrt(LD(b) / (LD(m) * a))
    val = np.abs(bw * Sb - aw * Sa)
    w = (bw + aw) * tol.d1 + 32 * M.EPS * (np.abs(bw * Sb) + np.abs(aw * Sa))
    return np.asarray(val - w, dtype=float), np.asarray(val + w, dtype=float)


def square_interval(iv):
    lo, hi = iv
    lo0 = np.maximum(lo, 0.0)
    return np.where(lo > 0, lo0 ** 2, 0.0) * (1 - 1e-15), np.maximum(hi, 0) ** 2 * (1 + 1e-15)


def l2_saving(X, tol, s, e):
    m = e - s
    S1 = tol.Xl[s:e].sum(axis=0)
    val = S1 ** 2 / m
    w = (2 * np.abs(S1) * tol.d1 + tol.d1 ** 2) / m + 32 * M.EPS * val
    return np.asarray(val - w, dtype=float), np.asarray(val + w, dtype=float)


def saving_from_cost(kind, param, X, tol, s, e):
    base = _cost(kind, param, X, tol, s, e)
    opt = _cost(kind, None, X, tol, s, e)
    if base is None or opt is None:
        return None
    return _sub(base, opt)


def local_from_cost(kind, param, X, tol, s, a, b, e):
    outer = _cost(kind, param, X, tol, s, e)
    inner = _cost(kind, param, X, tol, a, b)
    pooled_X = np.concatenate((X[s:a], X[b:e]))
    ptol = M.DataTol(pooled_X)
    pooled = _cost(kind, param, pooled_X, ptol, 0, pooled_X.shape[0])
    if outer is None or inner is None or pooled is None:
        return None
    return _sub(_sub(outer, inner), pooled)


def score_interval(desc, X, tol, cut):
    """desc: ('cost',kind,param) | ('cusum',) | ('change',kind,param) | ('l2saving',)
    | ('saving',kind,param) | ('local',kind,param).  Returns (lo, hi) or None when
    the multivariate covariance of some part is (near) singular."""
    t = desc[0]
    if t == "cost":
        return _cost(desc[1], desc[2], X, tol, *cut)
    if t == "cusum":
        return cusum(X, tol, *cut)
    if t == "change":
        return change_from_cost(desc[1], desc[2], X, tol, *cut)
    if t == "l2saving":
        return l2_saving(X, tol, *cut)
    if t == "saving":
        return saving_from_cost(desc[1], desc[2], X, tol, *cut)
    if t == "local":
        return local_from_cost(desc[1], desc[2], X, tol, *cut)
    raise KeyError(t)


def n_cut_entries(desc):
    return {"cost": 2, "cusum": 3, "change": 3, "l2saving": 2, "saving": 2, "local": 4}[desc[0]]


def base_min_size(desc, p):
    if desc[0] in ("cusum", "l2saving"):
        return 1
    return M.min_size(desc[1], p)


def cut_is_valid(desc, cut, n, p):
    """Validity predicate of property C13, from the statement."""
    cut = [int(c) for c in cut]
    if any(c < 0 or c > n for c in cut):
        return False
    ms = base_min_size(desc, p)
    d = [b - a for a, b in zip(cut[:-1], cut[1:])]
    if desc[0] == "local":
        if any(x < 1 for x in d):  # strictly increasing
            return False
        return d[1] >= ms and d[0] + d[2] >= ms
    return all(x >= ms for x in d)
