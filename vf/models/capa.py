"""Unpruned reference dynamic programme for CAPA / MVCAPA (property C03),
written from the statement: maximise the total penalised saving over sets of
pairwise disjoint collective anomalies (length in [m, M]) and point anomalies."""
import numpy as np


def penalised(savings, alpha, betas):
    """Best, over non-empty sets of k components, of summed savings - alpha - sum_{j<=k} beta_j.

    `savings` is a 1-D array (one entry per component); `betas` has the same
    length (or length 1, meaning zeros).  Returns (value, k).
    """
    s = np.sort(np.asarray(savings, dtype=float))[::-1]
    b = np.asarray(betas, dtype=float)
    if b.size != s.size:
        b = np.broadcast_to(b, s.shape) if b.size == 1 else np.resize(b, s.shape)
    cum = np.cumsum(s - b) - alpha
    k = int(np.argmax(cum))
    return float(cum[k]), k + 1


def reference_dp(coll, point, n, m, M, pen_c, pen_p):
    """coll: dict (s,e)->1-D savings for all m<=e-s<=M; point: list of 1-D savings per t.
    pen_c, pen_p: (alpha, betas).  Returns F[0..n] and back-pointers."""
    F = np.zeros(n + 1)
    back = [None] * (n + 1)
    for t in range(1, n + 1):
        best, arg = F[t - 1], None
        v = F[t - 1] + penalised(point[t - 1], *pen_p)[0]
        if v > best:
            best, arg = v, ("point", t - 1)
        for s in range(max(0, t - M), t - m + 1):
            v = F[s] + penalised(coll[(s, t)], *pen_c)[0]
            if v > best:
                best, arg = v, ("coll", s)
        F[t] = best
        back[t] = arg
    return F, back


def evaluate_anomalies(anoms, coll, point, m, M, pen_c, pen_p):
    """Total penalised saving of a reported anomaly set (None if inadmissible)."""
    tot = 0.0
    for (l, r) in anoms:
        if r - l == 1:
            tot += penalised(point[l], *pen_p)[0]
        elif m <= r - l <= M and (l, r) in coll:
            tot += penalised(coll[(l, r)], *pen_c)[0]
        else:
            return None
    return tot
