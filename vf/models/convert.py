"""Reference dense <-> sparse conversions (property C05).  Positions only,
never index values."""
import numpy as np


def dense_change(cpts, n):
    lab = np.zeros(n, dtype=np.int64)
    for c in cpts:
        lab[int(c):] += 1
    return lab


def dense_anomaly(intervals, labels, n):
    lab = np.zeros(n, dtype=np.int64)
    for (l, r), k in zip(intervals, labels):
        lab[int(l):int(r)] = int(k)
    return lab


def dense_subset(intervals, labels, columns, n, p):
    lab = np.zeros((n, p), dtype=np.int64)
    for (l, r), k, cols in zip(intervals, labels, columns):
        lab[int(l):int(r), np.asarray(cols, dtype=np.int64)] = int(k)
    return lab


def sparse_parts(y):
    """(kind, payload) of a predict() frame."""
    if "icolumns" in y.columns:
        arr = y["ilocs"].array
        iv = list(zip(np.asarray(arr.left).tolist(), np.asarray(arr.right).tolist()))
        return "subset", (iv, y["labels"].tolist(),
                          [sorted(np.asarray(c).tolist()) for c in y["icolumns"]])
    if "labels" in y.columns:
        arr = y["ilocs"].array
        iv = list(zip(np.asarray(arr.left).tolist(), np.asarray(arr.right).tolist()))
        return "anomaly", (iv, y["labels"].tolist())
    return "change", ([int(c) for c in y["ilocs"].tolist()],)


def reference_dense(y, n, p):
    kind, payload = sparse_parts(y)
    if kind == "change":
        return dense_change(payload[0], n).reshape(-1, 1)
    if kind == "anomaly":
        return dense_anomaly(payload[0], payload[1], n).reshape(-1, 1)
    return dense_subset(payload[0], payload[1], payload[2], n, p)


def same_sparse(y1, y2):
    """Equality of two sparse outputs up to the order of affected columns."""
    k1, p1 = sparse_parts(y1)
    k2, p2 = sparse_parts(y2)
    return k1 == k2 and list(map(list, p1)) == list(map(list, p2))
