"""JSON specs -> objects.  Recipes hold specs, never live objects, so that every
case can be written to a replay file and rebuilt exactly."""
import numpy as np
import pandas as pd


def registry():
    from skchange import anomaly_detectors as ad
    from skchange import anomaly_scores as asc
    from skchange import change_detectors as cd
    from skchange import change_scores as cs
    from skchange import costs
    from vf import userdefs as u

    reg = {}
    for m in (costs, cs, asc, cd, ad):
        for name in dir(m):
            obj = getattr(m, name, None)
            if isinstance(obj, type):
                reg[name] = obj
    from skchange.anomaly_detectors.anomalisers import StatThresholdAnomaliser
    from skchange.anomaly_scores.from_cost import LocalAnomalyScore, Saving
    from skchange.change_scores.from_cost import ChangeScore

    reg.update(StatThresholdAnomaliser=StatThresholdAnomaliser, Saving=Saving,
               LocalAnomalyScore=LocalAnomalyScore, ChangeScore=ChangeScore)
    for name in dir(u):
        obj = getattr(u, name)
        if isinstance(obj, type) and obj.__module__ == u.__name__:
            reg[name] = obj
    return reg


_REG = None


def S(cls, **kw):
    """Shorthand to write a spec."""
    return {"cls": cls, "kw": kw}


def ND(a, dtype=None):
    a = np.asarray(a)
    return {"nd": a.tolist(), "dtype": str(dtype or a.dtype)}


# Numeric hyper-parameters are handed over as NumPy scalars / 0-d arrays in a deterministic share
# of the constructions (same value, other type: np.int64(5), np.float64(0.3), np.float32(0.5) when
# exactly representable, np.array(5)): legitimate in every documented domain.  The choice is a pure
# function of (class, name, value), so an object and its twins get the same types.
NUMPY_SCALARS = {"rate": 0.15}


def _as_numpy_scalar(cls, key, v):
    if isinstance(v, bool) or not isinstance(v, (int, float)) or NUMPY_SCALARS["rate"] <= 0:
        return v
    # only the library's own classes (the harness's user-defined programs keep plain numbers), and
    # not the fixed cost parameter `param`, whose types C01 varies on its own
    if key == "param" or not getattr(_REG.get(cls), "__module__", "").startswith("skchange"):
        return v
    import zlib

    h = zlib.crc32(f"{cls}|{key}|{v!r}".encode()) / 2 ** 32
    if h >= NUMPY_SCALARS["rate"]:
        return v
    k = int(h / NUMPY_SCALARS["rate"] * 4)
    if isinstance(v, int):
        return [np.int64(v), np.int32(v), np.array(v), np.int64(v)][k]
    if k == 1 and float(np.float32(v)) == v:
        return np.float32(v)
    return np.array(v) if k == 2 else np.float64(v)


def build(spec):
    global _REG
    if _REG is None:
        _REG = registry()
    if isinstance(spec, dict):
        if "cls" in spec:
            kw = {k: _as_numpy_scalar(spec["cls"], k, build(v)) for k, v in spec.get("kw", {}).items()}
            return _REG[spec["cls"]](**kw)
        if "nd" in spec:
            a = np.array(spec["nd"], dtype=spec.get("dtype", "float64"))
            if spec.get("form") == "list":      # the same numbers as a plain Python list (array-like)
                return a.tolist()
            if spec.get("form") == "series":    # ... or as a pandas Series with string labels
                return pd.Series(a, index=[f"c{i}" for i in range(len(a))]) if a.ndim == 1 else a
            return np.asfortranarray(a) if spec.get("order") == "F" else a
        if "np" in spec:  # a NumPy scalar: {"np": "float32", "v": 1.5}
            return np.dtype(spec["np"]).type(spec["v"])
        if "tuple" in spec:
            return tuple(build(v) for v in spec["tuple"])
        if "fn" in spec:
            from vf.userdefs import FUNCTIONS

            return FUNCTIONS[spec["fn"]]
        return {k: build(v) for k, v in spec.items()}
    if isinstance(spec, list):
        return [build(v) for v in spec]
    return spec


def short(spec):
    """Compact human-readable rendering of a spec for evidence samples."""
    if isinstance(spec, dict):
        if "cls" in spec:
            inner = ", ".join(f"{k}={short(v)}" for k, v in spec.get("kw", {}).items())
            return f"{spec['cls']}({inner})"
        if "nd" in spec:
            return f"array{np.shape(spec['nd'])}"
        if "np" in spec:
            return f"np.{spec['np']}({spec['v']})"
        if "tuple" in spec:
            return "(" + ", ".join(short(v) for v in spec["tuple"]) + ")"
        if "fn" in spec:
            return spec["fn"]
    return repr(spec)


# ---------------------------------------------------------------- containers
INDEX_KINDS = ["range0", "range_offset", "range_step", "datetime", "period"]


def make_index(kind, n):
    if kind == "range0":
        return pd.RangeIndex(n)
    if kind == "range_offset":
        return pd.RangeIndex(17, 17 + n)
    if kind == "range_step":
        return pd.RangeIndex(5, 5 + 3 * n, 3)
    if kind == "datetime":
        return pd.date_range("2021-03-01", periods=n, freq="D")
    if kind == "period":
        return pd.period_range("2020-01", periods=n, freq="M")
    if kind == "datetime_ties":
        # monotonic but NOT unique: tied timestamps (event data at coarse resolution)
        base = pd.date_range("2022-05-01", periods=(n + 2) // 3 + 1, freq="s")
        return pd.DatetimeIndex(np.repeat(base.values, 3)[:n])
    if kind == "int_ties":
        # monotonic, not unique, plain integer labels (e.g. a coarse counter): 3 3 3 4 4 4 ...
        return pd.Index(np.repeat(np.arange(3, 3 + (n + 2) // 3 + 1), 3)[:n])
    raise KeyError(kind)


# monotonic indexes with repeated labels: accepted by the input validation (only a non-decreasing
# index is required), so label-based alignment anywhere inside a detector shows on them
TIED_INDEX_KINDS = ["datetime_ties", "int_ties"]
COLUMN_KINDS = ["default", "strings", "duplicate", "printsame"]


def column_labels(kind, p):
    """default ints; unsorted strings; repeated labels; distinct labels that print the same (1, "1")."""
    if kind == "default":
        return list(range(p))
    if kind == "strings":
        return ["zeta", "alpha", "mid", "b2", "a1", "q", "r7"][:p]
    if kind == "duplicate":
        return (["flow", "temp", "flow", "level", "temp", "flow", "x"])[:p]
    if kind == "printsame":
        return ([1, 2, "1", 3, "2", "3", 4])[:p]
    raise KeyError(kind)


def make_frame(X, index="range0", columns="default", dtype="float64"):
    X = np.asarray(X, dtype=dtype)
    if X.ndim == 1:
        X = X.reshape(-1, 1)
    n, p = X.shape
    cols = column_labels(columns, p)
    return pd.DataFrame(X, index=make_index(index, n), columns=cols)
