"""Catalogue of built-in interval scorers: (spec, model descriptor) pairs."""
import numpy as np

from vf.spec import ND, S

COST_KINDS = ["L2Cost", "GaussianVarCost", "GaussianCovCost"]


def fixed_param(rng, kind, p, percol=None):
    """(spec, plain) of a valid fixed parameter."""
    if percol is None:
        percol = p > 1 and rng.random() < 0.5
    k = p if percol else 1
    mean = rng.normal(0, 1.5, size=k).round(3)
    if rng.random() < 0.12:
        # integer-typed parameters (python ints / int64 arrays) are valid fixed parameters too
        imean, ivar = rng.integers(-2, 3, size=k), rng.integers(1, 6, size=k)
        im = int(imean[0]) if (k == 1 and rng.random() < 0.5) else ND(imean.astype(np.int64))
        if kind == "L2Cost":
            return im, imean.astype(float)
        if kind == "GaussianVarCost":
            iv = int(ivar[0]) if (k == 1 and rng.random() < 0.5) else ND(ivar.astype(np.int64))
            return {"tuple": [im, iv]}, (imean.astype(float), ivar.astype(float))
        d = rng.integers(1, 6, size=p)
        return {"tuple": [im, ND(np.diag(d).astype(np.int64))]}, (imean.astype(float), np.diag(d).astype(float))
    def _form(nd):
        # array-like containers other than ndarray for a share of the 1-D parameters: list, pandas Series
        u = rng.random()
        if u < 0.12:
            nd = dict(nd, form="list")
        elif u < 0.24:
            nd = dict(nd, form="series")
        return nd

    if kind == "L2Cost":
        if k == 1 and rng.random() < 0.5:
            return float(mean[0]), float(mean[0])
        return _form(ND(mean)), mean
    if kind == "GaussianVarCost":
        var = np.exp(rng.uniform(np.log(1e-2), np.log(1e2), size=k)).round(5)
        return {"tuple": [_form(ND(mean)), _form(ND(var))]}, (mean, var)
    if kind == "GaussianCovCost":
        if rng.random() < 0.3:
            # the documented scalar shorthand c for the covariance c * I (with a scalar or array mean)
            c = float(np.exp(rng.uniform(np.log(0.2), np.log(5.0))).round(4))
            ms = ND(mean) if rng.random() < 0.5 else float(mean[0])
            mplain = mean if len(mean) == p else np.full(p, float(mean[0]))
            return {"tuple": [ms, c]}, (mplain, c * np.eye(p))
        A = rng.standard_normal((p, p))
        Q, _ = np.linalg.qr(A)
        lam = np.exp(rng.uniform(np.log(1e-1), np.log(1e1), size=p))
        cov = (Q * lam) @ Q.T
        cov = (cov + cov.T) / 2
        return {"tuple": [ND(mean), ND(cov)]}, (mean, cov)
    raise KeyError(kind)


def cost_pair(rng, kind, p, fixed):
    if not fixed:
        return S(kind, param=None), ("cost", kind, None)
    ps, pp = fixed_param(rng, kind, p)
    return S(kind, param=ps), ("cost", kind, pp)


SCORER_NAMES = (
    [f"{k}[optim]" for k in COST_KINDS] + [f"{k}[fixed]" for k in COST_KINDS]
    + ["CUSUM", "L2Saving"]
    + [f"ChangeScore({k})" for k in COST_KINDS]
    + [f"ChangeScore({k}[fixed])" for k in COST_KINDS]
    + [f"Saving({k})" for k in COST_KINDS]
    + [f"LocalAnomalyScore({k})" for k in COST_KINDS]
    + [f"LocalAnomalyScore({k}[fixed])" for k in ("L2Cost", "GaussianVarCost")]
)


def make_scorer(rng, name, p):
    """(spec, desc) for a catalogue name."""
    if name == "CUSUM":
        return S("CUSUM"), ("cusum",)
    if name == "L2Saving":
        return S("L2Saving"), ("l2saving",)
    if name.endswith("[optim]") and "(" not in name:
        return cost_pair(rng, name[:-7], p, False)
    if name.endswith("[fixed]") and "(" not in name:
        return cost_pair(rng, name[:-7], p, True)
    outer, inner = name.split("(", 1)
    inner = inner[:-1]
    fixed = inner.endswith("[fixed]")
    kind = inner[:-7] if fixed else inner
    if outer == "ChangeScore":
        cs, cd = cost_pair(rng, kind, p, fixed)
        return S("ChangeScore", cost=cs), ("change", cd[1], cd[2])
    if outer == "Saving":
        cs, cd = cost_pair(rng, kind, p, True)
        return S("Saving", baseline_cost=cs), ("saving", cd[1], cd[2])
    if outer == "LocalAnomalyScore":
        cs, cd = cost_pair(rng, kind, p, fixed)
        return S("LocalAnomalyScore", cost=cs), ("local", cd[1], cd[2])
    raise KeyError(name)


def desc_from_spec(spec):
    """Model descriptor (with plain numpy parameters) of a built-in scorer spec."""
    from vf.spec import build

    cls, kw = spec["cls"], spec.get("kw", {})
    if cls in COST_KINDS:
        return ("cost", cls, build(kw.get("param")))
    if cls == "CUSUM":
        return ("cusum",)
    if cls == "L2Saving":
        return ("l2saving",)
    if cls == "ChangeScore":
        c = kw["cost"]
        return ("change", c["cls"], build(c["kw"].get("param")))
    if cls == "Saving":
        c = kw["baseline_cost"]
        return ("saving", c["cls"], build(c["kw"].get("param")))
    if cls == "LocalAnomalyScore":
        c = kw["cost"]
        return ("local", c["cls"], build(c["kw"].get("param")))
    raise KeyError(cls)
