"""Reach probes (DESIGN §1.1 d): sys.monitoring PY_START / LINE events on the
functions of skchange's non-test modules.  Evidence only: which anchored
mechanisms a run actually entered and how many of their lines it executed.
A check whose anchored mechanism exists but was never entered is inconclusive."""
import sys
import types
from collections import Counter

TOOL = 4  # a free tool id (0-5); 4 is not claimed by debugger/coverage/profiler/optimizer
CALLS = Counter()
LINES = {}
_CODES = {}   # code object -> qualified name
_ON = [False]


def _functions():
    out = {}
    for mname, mod in list(sys.modules.items()):
        if not mname.startswith("skchange") or ".tests" in mname or mod is None:
            continue
        for name, obj in list(vars(mod).items()):
            f = getattr(obj, "__wrapped__", obj)
            if isinstance(f, types.FunctionType) and f.__module__ == mname:
                out[f.__code__] = f"{mname}.{name}"
            elif isinstance(obj, type) and obj.__module__ == mname:
                for an, av in list(vars(obj).items()):
                    g = av.__func__ if isinstance(av, (staticmethod, classmethod)) else av
                    g = getattr(g, "fget", g)
                    if isinstance(g, types.FunctionType) and g.__module__ == mname:
                        out[g.__code__] = f"{mname}.{obj.__name__}.{an}"
    return out


def start():
    if _ON[0] or not hasattr(sys, "monitoring"):
        return False
    mon = sys.monitoring
    try:
        mon.use_tool_id(TOOL, "vf-reach")
    except ValueError:
        return False
    _CODES.update(_functions())

    def on_start(code, offset):
        CALLS[code] += 1

    def on_line(code, line):
        LINES.setdefault(code, set()).add(line)
        return mon.DISABLE

    mon.register_callback(TOOL, mon.events.PY_START, on_start)
    mon.register_callback(TOOL, mon.events.LINE, on_line)
    for code in _CODES:
        mon.set_local_events(TOOL, code, mon.events.PY_START | mon.events.LINE)
    _ON[0] = True
    return True


def _total_lines(code):
    return len({ln for _, _, ln in code.co_lines() if ln is not None and ln != code.co_firstlineno})


def report(anchors):
    """{anchor: {'calls', 'lines_hit', 'lines_total'} | 'anchor not found'} for dotted names."""
    by_name = {}
    for code, name in _CODES.items():
        by_name.setdefault(name, code)
    out = {}
    for a in anchors:
        code = by_name.get(a)
        if code is None:
            out[a] = "anchor not found"
            continue
        out[a] = {"calls": int(CALLS.get(code, 0)), "lines_hit": len(LINES.get(code, ())),
                  "lines_total": _total_lines(code)}
    return out


def dump_all():
    """Every monitored function: file, first line, lines hit, all statement lines (tools/coverage_gaps.py)."""
    out = {}
    for code, name in _CODES.items():
        allv = sorted({ln for _, _, ln in code.co_lines() if ln is not None and ln != code.co_firstlineno})
        out[name] = {"file": code.co_filename, "first": code.co_firstlineno, "calls": int(CALLS.get(code, 0)),
                     "hit": sorted(LINES.get(code, ())), "all": allv}
    return out
