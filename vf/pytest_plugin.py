"""pytest plugin: run the repository's own test-suite under the contract layer
(extra workload; pass/fail of the tests themselves is irrelevant to the verdict)."""
import json
import os


def pytest_configure(config):
    from vf import bootstrap

    bootstrap()
    from vf import instrument as I

    I.install()


def pytest_sessionfinish(session, exitstatus):
    from vf import instrument as I

    out = os.environ.get("VERIF_CONTRACT_LOG")
    if out:
        with open(out, "w") as f:
            json.dump({"counts": dict(I.COUNTS), "hits": I.HITS[:500]}, f)
