"""Shard context: counters, verdict bookkeeping, witnesses (DESIGN §1.3)."""
import hashlib
import json
import time
from collections import Counter

import numpy as np


def jsonable(o):
    """Convert numpy / pandas scalars and containers into plain JSON values."""
    import pandas as pd

    if isinstance(o, dict):
        return {str(k): jsonable(v) for k, v in o.items()}
    if isinstance(o, (list, tuple)):
        return [jsonable(v) for v in o]
    if isinstance(o, np.ndarray):
        return jsonable(o.tolist())
    if isinstance(o, (np.integer,)):
        return int(o)
    if isinstance(o, (np.floating,)):
        return float(o)
    if isinstance(o, (np.bool_,)):
        return bool(o)
    if isinstance(o, float):
        return o
    if isinstance(o, (pd.DataFrame, pd.Series)):
        return str(o)
    if isinstance(o, (str, int, bool)) or o is None:
        return o
    return repr(o)


def _strict(o):
    """Evidence must be strict JSON: non-finite floats (NaN / inf in extreme-data samples, infinite
    bounds) are written as strings there.  Replay files keep the real values."""
    if isinstance(o, dict):
        return {k: _strict(v) for k, v in o.items()}
    if isinstance(o, list):
        return [_strict(v) for v in o]
    if isinstance(o, float) and not np.isfinite(o):
        return repr(o)
    return o


def digest(o) -> str:
    return hashlib.sha1(
        json.dumps(jsonable(o), sort_keys=True, default=repr).encode()
    ).hexdigest()[:16]


class Inconclusive(Exception):
    pass


class Ctx:
    """Everything one shard observes.

    A *case* is one generated execution (recipe).  A violation carries the
    recipe that reproduces it (`./check Cxx --replay file`), the sub-check that
    fired and a *mechanism key* used only to match entries of
    known_findings.json (never seeds or data values).
    """

    MAX_WITNESS_PER_MECH = 5

    def __init__(self, prop, tier, seed, shard=0, nshards=1, replay=False):
        self.prop = prop
        self.tier = tier
        self.seed = int(seed)
        self.shard = shard
        self.nshards = nshards
        self.replay = replay
        self.rng = np.random.default_rng([self.seed, shard, int(prop[1:]), 7919])
        self.evaluations = 0
        self.nontrivial = set()
        self.violations = []
        self.viol_counts = Counter()
        self.samples = []
        self.stats = Counter()
        self.notes = []
        self.t0 = time.time()

    # -- bookkeeping -----------------------------------------------------
    def case(self, n=1):
        self.evaluations += n

    def nt(self, key):
        """Register a distinct non-trivial case (by digest of its recipe)."""
        self.nontrivial.add(key if isinstance(key, str) else digest(key))

    def stat(self, name, inc=1):
        self.stats[name] += inc

    def sample(self, obj, cap=4):
        if len(self.samples) < cap:
            self.samples.append(_strict(jsonable(obj)))

    def violation(self, sub, mech, msg, recipe, extra=None):
        key = f"{sub}|{mech}"
        self.viol_counts[key] += 1
        if self.viol_counts[key] <= self.MAX_WITNESS_PER_MECH:
            self.violations.append(
                {
                    "property": self.prop,
                    "tier": self.tier,
                    "sub": sub,
                    "mechanism": mech,
                    "message": str(msg)[:2000],
                    "recipe": jsonable(recipe),
                    "extra": jsonable(extra) if extra is not None else None,
                }
            )
        if self.replay:
            print(f"[replay] VIOLATED sub={sub} mechanism={mech}: {msg}")

    def result(self):
        return {
            "prop": self.prop,
            "shard": self.shard,
            "evaluations": self.evaluations,
            "nontrivial": sorted(self.nontrivial),
            "violations": self.violations,
            "viol_counts": dict(self.viol_counts),
            "samples": self.samples,
            "stats": dict(self.stats),
            "notes": self.notes,
            "wall_s": time.time() - self.t0,
        }


def split_range(total, shard, nshards):
    """Indices of `range(total)` handled by this shard (round robin)."""
    return range(shard, total, nshards)


class CaseTimeout(Exception):
    pass


import contextlib
import signal


@contextlib.contextmanager
def time_limit(seconds):
    """Generous per-case wall-clock watchdog (its firing is never a verdict by itself)."""
    def handler(signum, frame):
        raise CaseTimeout(f"case exceeded {seconds}s")

    old = signal.signal(signal.SIGALRM, handler)
    signal.setitimer(signal.ITIMER_REAL, seconds)
    try:
        yield
    finally:
        signal.setitimer(signal.ITIMER_REAL, 0)
        signal.signal(signal.SIGALRM, old)


class CpuBudgetExceeded(Exception):
    pass


@contextlib.contextmanager
def cpu_budget(seconds, wall_factor=30):
    """Deadline in *virtual* time: CPU seconds consumed by this process (ITIMER_VIRTUAL), which a
    loaded machine does not inflate.  Used where 'does not run to completion' is itself the verdict
    (C14): a loop that never ends burns CPU and exhausts any budget, a slow case on a busy machine
    does not.  A separate wall-clock watchdog (wall_factor x the budget) raises CaseTimeout, which is
    never a verdict."""
    def on_cpu(signum, frame):
        raise CpuBudgetExceeded(f"case used more than {seconds}s of CPU time")

    def on_wall(signum, frame):
        raise CaseTimeout(f"case exceeded {seconds * wall_factor}s of wall-clock time")

    old_v = signal.signal(signal.SIGVTALRM, on_cpu)
    old_r = signal.signal(signal.SIGALRM, on_wall)
    signal.setitimer(signal.ITIMER_VIRTUAL, seconds)
    signal.setitimer(signal.ITIMER_REAL, seconds * wall_factor)
    try:
        yield
    finally:
        signal.setitimer(signal.ITIMER_VIRTUAL, 0)
        signal.setitimer(signal.ITIMER_REAL, 0)
        signal.signal(signal.SIGVTALRM, old_v)
        signal.signal(signal.SIGALRM, old_r)


def regular_subbatches(rng, cuts, max_batches=4):
    """Index arrays selecting *regular* sub-batches of a (rows, k) cut array: the shapes a detector or a
    vectorised fast path produces -- all rows with the same part sizes as a pivot row (a sliding window,
    usually with unequal parts), all rows sharing the pivot's outer interval, all rows sharing its first
    cut, and the pivot alone.  A row's value must not depend on the batch it is evaluated in."""
    import numpy as np

    cuts = np.asarray(cuts)
    if cuts.ndim != 2 or len(cuts) == 0:
        return []
    d = np.diff(cuts, axis=1)
    out = []
    for _ in range(max_batches):
        i = int(rng.integers(len(cuts)))
        kind = int(rng.integers(4))
        if kind == 0:
            sel = np.flatnonzero((d == d[i]).all(axis=1))
        elif kind == 1:
            sel = np.flatnonzero((cuts[:, 0] == cuts[i, 0]) & (cuts[:, -1] == cuts[i, -1]))
        elif kind == 2:
            sel = np.flatnonzero(cuts[:, 0] == cuts[i, 0])
        else:
            sel = np.array([i])
        if len(sel) > 40:
            sel = np.sort(rng.choice(sel, size=40, replace=False))
        out.append((("same-part-sizes", "same-outer-interval", "same-start", "single-row")[kind], sel))
    return out
