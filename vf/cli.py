"""./check <Cxx> [--tier quick|thorough] [--replay PATH]

Runs the property's driver in sharded child processes (one subprocess per
shard under a thread pool, each with a wall-clock watchdog whose firing is
*inconclusive*, never a violation), merges what the monitors observed, matches
violations against known_findings.json by mechanism key, writes
evidence/<id>.json and decides the three-valued verdict:

    exit 0  held on everything explored (monitors silent, counters above floors)
    exit 1  VIOLATION property=<id> replay=<path>
    exit 2  INCONCLUSIVE property=<id> <why>   (no VIOLATION line)
"""
import argparse
import importlib
import json
import os
import subprocess
import sys
import time
from collections import Counter
from concurrent.futures import ThreadPoolExecutor

from vf import REPO_ROOT, VERIF_ROOT, bootstrap


def load_findings():
    path = os.path.join(VERIF_ROOT, "known_findings.json")
    if not os.path.exists(path):
        return []
    with open(path) as f:
        return json.load(f).get("findings", [])


def run_shard(prop, tier, seed, shard, nshards, out, timeout):
    env = dict(os.environ)
    env.update(
        PYTHONHASHSEED="0",
        PYTHONDONTWRITEBYTECODE="1",
        SKCHANGE_VERIF="1",
        OMP_NUM_THREADS="1",
        OPENBLAS_NUM_THREADS="1",
        MKL_NUM_THREADS="1",
        NUMBA_DISABLE_JIT=os.environ.get("NUMBA_DISABLE_JIT", "0"),
    )
    cmd = [
        sys.executable, "-m", "vf.shard", prop, "--tier", tier, "--seed", str(seed),
        "--shard", str(shard), "--nshards", str(nshards), "--out", out,
    ]
    t0 = time.time()
    try:
        cp = subprocess.run(
            cmd, cwd=VERIF_ROOT, env=env, timeout=timeout,
            stdout=subprocess.PIPE, stderr=subprocess.STDOUT, text=True,
        )
        status = "ok" if cp.returncode == 0 else f"exit{cp.returncode}"
        log = cp.stdout
    except subprocess.TimeoutExpired as e:
        status = "watchdog"
        log = (e.stdout or b"").decode() if isinstance(e.stdout, bytes) else (e.stdout or "")
    return {"shard": shard, "status": status, "log": log[-4000:], "wall_s": time.time() - t0}


def main(argv=None):
    ap = argparse.ArgumentParser()
    ap.add_argument("prop")
    ap.add_argument("--tier", default=os.environ.get("VERIF_TIER", "quick"),
                    choices=["quick", "thorough"])
    ap.add_argument("--replay", default=None)
    ap.add_argument("--shards", type=int, default=None)
    args = ap.parse_args(argv)
    prop = args.prop.upper()
    seed = int(os.environ.get("VERIF_SEED", "0") or 0)
    bootstrap()
    mod = importlib.import_module(f"vf.checks.{prop.lower()}")

    if args.replay:
        from vf.shard import replay_main
        return replay_main(prop, args.replay)

    t0 = time.time()
    tier = args.tier
    nshards = args.shards or mod.SHARDS[tier]
    timeout = mod.WATCHDOG[tier]
    work = os.path.join(VERIF_ROOT, ".work", f"{prop}-{tier}-{os.getpid()}")
    os.makedirs(work, exist_ok=True)
    outs = [os.path.join(work, f"shard{i}.json") for i in range(nshards)]
    with ThreadPoolExecutor(max_workers=min(nshards, os.cpu_count() or 4)) as ex:
        runs = list(ex.map(
            lambda i: run_shard(prop, tier, seed, i, nshards, outs[i], timeout),
            range(nshards)))

    # ---- merge -----------------------------------------------------------
    inconclusive = []
    evaluations = 0
    nontrivial = set()
    violations = []
    viol_counts = Counter()
    samples = []
    stats = Counter()
    notes = []
    reach = {}
    contract_evals = Counter()
    for r, out in zip(runs, outs):
        if r["status"] != "ok" or not os.path.exists(out):
            inconclusive.append(f"shard {r['shard']} {r['status']}: {r['log'][-600:]!r}")
            continue
        with open(out) as f:
            res = json.load(f)
        evaluations += res["evaluations"]
        nontrivial.update(res["nontrivial"])
        violations.extend(res["violations"])
        viol_counts.update(res["viol_counts"])
        if len(samples) < 6:
            samples.extend(res["samples"][: 6 - len(samples)])
        stats.update(res["stats"])
        notes.extend(res["notes"])
        contract_evals.update(res.get("contract_evaluations", {}))
        for a, v in res.get("reach", {}).items():
            if isinstance(v, dict):
                cur = reach.setdefault(a, {"calls": 0, "lines_hit": 0, "lines_total": v["lines_total"]})
                if isinstance(cur, dict):
                    cur["calls"] += v["calls"]
                    cur["lines_hit"] = max(cur["lines_hit"], v["lines_hit"])
            else:
                reach.setdefault(a, v)
    for f in outs:
        if os.path.exists(f):
            os.remove(f)
    try:
        os.rmdir(work)
    except OSError:
        pass

    # ---- floors: a silent monitor that observed nothing is not a pass -----
    floors = dict(getattr(mod, "FLOORS", {}).get(tier, {}))
    for name, floor in floors.items():
        got = len(nontrivial) if name == "distinct_nontrivial" else (
            evaluations if name == "evaluations" else stats.get(name, 0))
        if got < floor:
            inconclusive.append(f"counter {name}={got} below floor {floor}")
    if len(nontrivial) < 2:
        inconclusive.append("fewer than 2 distinct non-trivial cases")
    # Anchors are evidence.  A single anchor that exists but was not entered may be a correct
    # refactor that no longer routes through it, so it is only noted; but a run that entered NONE of
    # the property's anchored mechanisms observed nothing of interest and is inconclusive.
    found = [v for v in reach.values() if isinstance(v, dict)]
    for a, v in reach.items():
        if isinstance(v, dict) and v["calls"] == 0:
            notes.append(f"anchor {a} exists but was never entered in this run")
    if found and not any(v["calls"] > 0 for v in found):
        inconclusive.append("none of the anchored mechanisms was entered")

    # ---- known findings ----------------------------------------------------
    findings = [f for f in load_findings() if f.get("property") == prop]
    open_keys = {f["key"]: f for f in findings if f.get("status") == "open"}
    new_violations = []
    known_hits = Counter()
    for v in violations:
        if v["mechanism"] in open_keys:
            known_hits[v["mechanism"]] += 1
        else:
            new_violations.append(v)
    for key, cnt in viol_counts.items():
        mech = key.split("|", 1)[1]
        if mech in open_keys:
            known_hits[mech] = max(known_hits[mech], cnt)

    replay_dir = os.path.join(VERIF_ROOT, "replays", prop)
    lines = []
    for v in new_violations:
        os.makedirs(replay_dir, exist_ok=True)
        from vf.core import digest
        path = os.path.join(replay_dir, digest(v) + ".json")
        with open(path, "w") as f:
            json.dump(v, f, indent=1)
        lines.append(
            f"VIOLATION property={prop} replay={path}  # sub={v['sub']} "
            f"mechanism={v['mechanism']} :: {v['message'][:300]}")
    for key, f in open_keys.items():
        lines.append(
            f"KNOWN-FINDING: property={prop} {f['what']} [key={key}; "
            f"re-observed {known_hits.get(key, 0)}x in this run]")

    # ---- evidence ------------------------------------------------------------
    wall = time.time() - t0
    n_new = sum(c for k, c in viol_counts.items()
                if k.split("|", 1)[1] not in open_keys)
    evidence = {
        "property_id": prop,
        "tier": tier,
        "seed": seed,
        "level": getattr(mod, "LEVEL", "exploration"),
        "coverage": {
            "evaluations": int(evaluations),
            "distinct_nontrivial": len(nontrivial),
            "rule": mod.RULE,
            "samples": samples if samples else [],
            "exhaustive": False,
            "exhaustive_subspaces": getattr(mod, "EXHAUSTIVE_SUBSPACES", {}).get(tier, []),
            "observed": {k: int(v) for k, v in sorted(stats.items())},
            "contract_evaluations": {k: int(v) for k, v in sorted(contract_evals.items())},
            "anchors_reached": reach,
            "shards": nshards,
            "shard_status": [r["status"] for r in runs],
            "violation_counts_by_mechanism": dict(viol_counts),
            "known_findings_reobserved": dict(known_hits),
            "notes": notes[:20],
            "repo_root": REPO_ROOT,
        },
        "assumptions": list(getattr(mod, "ASSUMPTIONS", [])) + [
            "numba is not installed in this sandbox: the kernels ran as plain Python; "
            "the numba-compiled dispatch of the same source was not exercised",
            "decides only the executions produced (bounds in coverage.rule)",
        ],
        "wall_s": round(wall, 2),
        "violations": int(n_new),
        "verdict": "violated" if new_violations else (
            "inconclusive" if inconclusive else "held"),
    }
    ev_dir = os.environ.get("VERIF_EVIDENCE_DIR") or os.path.join(VERIF_ROOT, "evidence")
    os.makedirs(ev_dir, exist_ok=True)
    ev_path = os.path.join(ev_dir, f"{prop}.json")
    try:
        schema_path = "/root/.vp/EVIDENCE.schema.json"
        if os.path.exists(schema_path) and not inconclusive:
            import jsonschema  # available in /venv? optional
            with open(schema_path) as f:
                jsonschema.validate(evidence, json.load(f))
    except ImportError:
        pass
    except Exception as e:  # schema violation of our own evidence: inconclusive
        inconclusive.append(f"evidence does not validate: {e}")
    with open(ev_path, "w") as f:
        from vf.core import _strict
        json.dump(_strict(evidence), f, indent=1, sort_keys=True, allow_nan=False)  # strict JSON

    print(f"[{prop} {tier} seed={seed}] evaluations={evaluations} "
          f"distinct_nontrivial={len(nontrivial)} shards={nshards} wall={wall:.1f}s")
    interesting = {k: v for k, v in sorted(stats.items())}
    print(f"[{prop}] observed: {json.dumps(interesting)}")
    for ln in lines:
        print(ln)
    if new_violations:
        return 1
    if inconclusive:
        for why in inconclusive:
            print(f"INCONCLUSIVE property={prop} {why}")
        return 2
    print(f"HELD property={prop} on everything explored")
    return 0


if __name__ == "__main__":
    sys.exit(main())
