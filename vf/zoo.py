"""The detector zoo: random configurations of the seven detectors inside their
documented domains, boundary values included (DESIGN §3, C04)."""
import numpy as np

from vf.spec import S

DETECTORS = ["PELT", "SeededBinarySegmentation", "MovingWindow", "CAPA", "MVCAPA",
             "CircularBinarySegmentation", "StatThresholdAnomaliser"]
PENALTY_FNS = ["pen_const_only", "pen_equal_betas", "pen_decreasing_betas", "pen_increasing_betas",
               "pen_zero", "pen_zero_alpha_equal_betas", "pen_mixed"]


def _choice(rng, xs):
    return xs[int(rng.integers(len(xs)))]


def change_score(rng, p, allow_user=True):
    """(spec or None, min_size)"""
    opts = ["none", "CUSUM", "L2Cost", "GaussianVarCost", "L1Cost"] + (
        ["Hash", "HashMV", "GaussianCovCost", "LazySSE"] if allow_user else [])
    k = _choice(rng, opts)
    if k == "GaussianCovCost":
        return S("GaussianCovCost", param=None), p + 1
    if k == "HashMV":  # inherently multivariate user score: one output column for all variables
        return S("HashChangeScore", seed=int(rng.integers(1000)), modulus=int(_choice(rng, [3, 7, 13])),
                 minsize=1, multivariate=True), 1
    if k == "none":
        return None, 1
    if k == "CUSUM":
        return S("CUSUM"), 1
    if k == "L2Cost":
        return S("L2Cost", param=None), 1
    if k == "GaussianVarCost":
        return S("GaussianVarCost", param=None), 2
    if k == "L1Cost":
        return S("ChangeScore", cost=S("L1Cost", param=None, multivariate=bool(allow_user and rng.random() < 0.3))), 1
    if k == "LazySSE":  # minimal user cost that reads the inherited _X (no _fit of its own)
        return S("ChangeScore", cost=S("LazySSECost", param=None)), 1
    return S("HashChangeScore", seed=int(rng.integers(1000)), modulus=int(_choice(rng, [3, 7, 13])),
             minsize=1, signed=bool(rng.random() < 0.4)), 1


def pelt(rng, p, dense_events):
    k = _choice(rng, ["none", "L2Cost", "GaussianVarCost", "L1Cost", "ClosureTableCost", "L2fixed", "LazySSECost",
                      "GaussianCovCost"])
    msl = int(rng.integers(1, 6))
    if k == "none":
        cost = None
    elif k == "GaussianCovCost":  # inherently multivariate built-in cost: minimum size p + 1
        cost, msl = S("GaussianCovCost", param=None), max(msl, p + 1)
    elif k == "L2Cost":
        cost = S("L2Cost", param=None)
    elif k == "GaussianVarCost":
        cost, msl = S("GaussianVarCost", param=None), max(msl, 2)
    elif k == "L1Cost":
        cost = S("L1Cost", param=None)
        if rng.random() < 0.3:
            cost["kw"]["multivariate"] = True  # declared multivariate: one output column, min size 1
    elif k == "L2fixed":
        cost = S("L2Cost", param=0.0)
    elif k == "LazySSECost":
        cost = S("LazySSECost", param=None)
    else:
        cost = S("ClosureTableCost", seed=int(rng.integers(1000)), maxinc=int(rng.integers(1, 4)),
                 zero_prob=float(_choice(rng, [0.3, 0.6])), offset=int(_choice(rng, [0, 0, 2, 5])))
        if rng.random() < 0.3:
            cost["kw"]["multivariate"] = True
    scales = [0.0, 0.02, 0.1, 0.5, 1.0] if dense_events else [0.0, 0.1, 0.5, 1.0, 2.0, 5.0]
    return S("PELT", cost=cost, penalty_scale=float(_choice(rng, scales)), min_segment_length=msl), 2 * msl


def sbs(rng, p, dense_events):
    cs, ms = change_score(rng, p)
    msl = max(int(rng.integers(1, 6)), ms)
    r = rng.random()
    mil = 2 * msl if r < 0.25 else int(rng.integers(2 * msl, 2 * msl + 40))
    scales = [0.0, 0.05, 0.3, 1.0, None] if dense_events else [0.0, 0.3, 1.0, 2.0, 5.0, None]
    return S("SeededBinarySegmentation", change_score=cs, threshold_scale=_choice(rng, scales),
             level=float(_choice(rng, [1e-8, 0.01, 0.2, 0.6])), min_segment_length=msl,
             max_interval_length=mil,
             growth_factor=float(_choice(rng, [1.01, 1.1, 1.5, 1.9, 2.0, round(float(rng.uniform(1.02, 2.0)), 3)]))), 2 * msl


def mw(rng, p, dense_events):
    cs, ms = change_score(rng, p)
    b = max(int(rng.integers(1, 9)), ms)
    mdi_max = int(max(1, np.floor(b / 2 - 1)))
    scales = [0.0, 0.05, 0.3, 1.0, None] if dense_events else [0.0, 0.3, 1.0, 2.0, None]
    return S("MovingWindow", change_score=cs, bandwidth=b, threshold_scale=_choice(rng, scales),
             level=float(_choice(rng, [0.01, 0.2, 0.6])),
             min_detection_interval=int(rng.integers(1, mdi_max + 1))), 2 * b


def saving(rng, univariate_only=False):
    k = _choice(rng, ["none", "L2Saving", "L2Cost0", "GaussianVarCost", "Table"])
    if k == "none":
        return None, 1
    if k == "L2Saving":
        return S("L2Saving"), 1
    if k == "L2Cost0":
        return S("L2Cost", param=0.0), 1
    if k == "GaussianVarCost":
        return S("GaussianVarCost", param={"tuple": [0.0, 1.0]}), 2
    return S("ClosureTableSaving", seed=int(rng.integers(1000)), maxval=int(_choice(rng, [3, 6, 10])),
             zero_prob=float(_choice(rng, [0.2, 0.5])), n_params=1), 1


def capa(rng, p, dense_events):
    cs, ms = saving(rng)
    m = max(int(rng.integers(2, 6)), ms)
    M = m if rng.random() < 0.2 else int(rng.integers(m, m + 30))
    scales = [0.0, 0.05, 0.2, 0.5, 1.0] if dense_events else [0.0, 0.2, 1.0, 2.0, 5.0]
    ps = _choice(rng, [None, S("L2Saving"), S("L2Cost", param=0.0)])
    return S("CAPA", collective_saving=cs, point_saving=ps,
             collective_penalty_scale=float(_choice(rng, scales)),
             point_penalty_scale=float(_choice(rng, scales)), min_segment_length=m,
             max_segment_length=M, ignore_point_anomalies=bool(rng.random() < 0.25)), m


def mvcapa(rng, p, dense_events):
    cs, ms = saving(rng, univariate_only=True)
    m = max(int(rng.integers(2, 6)), ms)
    M = m if rng.random() < 0.2 else int(rng.integers(m, m + 30))
    scales = [0.0, 0.05, 0.2, 0.5, 1.0] if dense_events else [0.0, 0.2, 1.0, 2.0, 5.0]
    names = ["dense", "sparse", "combined"] + (["intermediate"] if p >= 2 else [])

    def pen():
        if rng.random() < 0.35:
            return {"fn": _choice(rng, PENALTY_FNS)}
        return _choice(rng, names)

    ps = _choice(rng, [None, S("L2Saving"), S("L2Cost", param=0.0)])
    return S("MVCAPA", collective_saving=cs, point_saving=ps, collective_penalty=pen(),
             collective_penalty_scale=float(_choice(rng, scales)), point_penalty=pen(),
             point_penalty_scale=float(_choice(rng, scales)), min_segment_length=m,
             max_segment_length=M, ignore_point_anomalies=bool(rng.random() < 0.25)), m


def cbs(rng, p, dense_events):
    k = _choice(rng, ["none", "L2Cost", "GaussianVarCost", "Hash", "L2local", "HashMV", "LazyLocal", "GaussianCovCost",
                      "L2fixed", "GVfixed"])
    msl = int(rng.integers(1, 5))
    if k == "HashMV":
        k = "Hash"
        mv = True
    else:
        mv = False
    if k == "none":
        sc = None
    elif k == "GaussianCovCost":
        sc, msl = S("GaussianCovCost", param=None), max(msl, p + 1)
    elif k == "L2fixed":  # fixed-parameter costs are additive: every local anomaly score is zero up to rounding
        sc = S("L2Cost", param=float(_choice(rng, [0.0, 0.5, -1.0])))
    elif k == "GVfixed":
        sc, msl = S("GaussianVarCost", param={"tuple": [0.0, float(_choice(rng, [1.0, 2.5]))]}), max(msl, 2)
    elif k == "L2Cost":
        sc = S("L2Cost", param=None)
    elif k == "GaussianVarCost":
        sc, msl = S("GaussianVarCost", param=None), max(msl, 2)
    elif k == "L2local":
        sc = S("LocalAnomalyScore", cost=S("L2Cost", param=None))
    elif k == "LazyLocal":
        sc = S("LocalAnomalyScore", cost=S("LazySSECost", param=None))
    else:
        sc = S("HashLocalAnomalyScore", seed=int(rng.integers(1000)), modulus=int(_choice(rng, [3, 7, 13])),
               multivariate=mv, signed=bool(rng.random() < 0.4))
    mil = 2 * msl if rng.random() < 0.2 else int(rng.integers(2 * msl, 2 * msl + 20))
    scales = [0.0, 0.05, 0.3, 1.0, None] if dense_events else [0.0, 0.3, 1.0, 2.0, None]
    return S("CircularBinarySegmentation", anomaly_score=sc, threshold_scale=_choice(rng, scales),
             level=float(_choice(rng, [1e-8, 0.01, 0.2, 0.6])), min_segment_length=msl,
             max_interval_length=mil,
             growth_factor=float(_choice(rng, [1.1, 1.5, 2.0, round(float(rng.uniform(1.05, 2.0)), 3)]))), 2 * msl


def anomaliser(rng, p, dense_events):
    k = _choice(rng, ["PELT", "MW", "SBS", "Scripted"])
    if k == "PELT":
        inner, nmin = pelt(rng, 1, True)
    elif k == "MW":
        inner, nmin = mw(rng, 1, True)
    elif k == "SBS":
        inner, nmin = sbs(rng, 1, True)
    else:
        cp = sorted(set(int(c) for c in rng.integers(1, 40, size=int(rng.integers(0, 6)))))
        inner, nmin = S("ScriptedChangeDetector", changepoints=cp), 2
    lo = float(_choice(rng, [-1.0, -0.3, 0.0, 0.5]))
    hi = lo + float(_choice(rng, [0.0, 0.3, 1.0, 2.5]))
    u = rng.random()
    if u < 0.12:
        lo = float("-inf")  # one-sided: only the upper bound counts
    elif u < 0.24:
        hi = float("inf")
    return S("StatThresholdAnomaliser", change_detector=inner,
             stat={"fn": _choice(rng, ["np.mean", "np.median", "stat_range", "stat_first", "stat_std1",
                                      # the NumPy reducers themselves (a library may special-case these objects)
                                      "np.std", "np.var", "np.sum", "np.min", "np.max", "np.ptp"])},
             stat_lower=lo, stat_upper=hi), nmin


MAKERS = {"PELT": pelt, "SeededBinarySegmentation": sbs, "MovingWindow": mw, "CAPA": capa,
          "MVCAPA": mvcapa, "CircularBinarySegmentation": cbs, "StatThresholdAnomaliser": anomaliser}


def _no_negative_tuned_threshold(spec):
    """Scores that can be negative are only combined with numeric thresholds (>= 0): a threshold tuned
    on negative scores can be negative, which is outside every statement's quantifier."""
    kw = spec.get("kw", {})
    for v in kw.values():
        if isinstance(v, dict) and "cls" in v:
            if v.get("kw", {}).get("signed") and kw.get("threshold_scale", 0) is None:
                kw["threshold_scale"] = 0.3
            _no_negative_tuned_threshold(v)
            if v.get("kw", {}).get("signed") and "change_detector" in kw:
                pass
    return spec


def random_detector(rng, dense_events=True, pmax=4, which=None):
    """(spec, minimum n, p)"""
    name = which or _choice(rng, DETECTORS)
    p = 1 if name == "StatThresholdAnomaliser" else int(rng.integers(1, pmax + 1))
    spec, nmin = MAKERS[name](rng, p, dense_events)
    return _no_negative_tuned_threshold(spec), nmin, p
