"""Plugged-in programs (the `programs` quantifier): user-defined costs, savings,
scores and detectors written against skchange's *public* base classes and driven
through the same public API as the built-in ones.

All of them are parametrised by small integers (seeds, ranges) so that a recipe
stays small and replayable; tables are rebuilt deterministically at fit time.
Integer-valued tables give exact arithmetic, i.e. real ties.
"""
import numpy as np

from skchange.anomaly_scores.base import BaseLocalAnomalyScore, BaseSaving
from skchange.change_detectors.base import ChangeDetector
from skchange.change_scores.base import BaseChangeScore
from skchange.costs.base import BaseCost
from skchange.utils.validation.data import as_2d_array


# --------------------------------------------------------------------------
# data-driven user costs (optimal-parameter costs always satisfy the split
# inequality: min over one parameter >= sum of mins over two)
# --------------------------------------------------------------------------
class L1Cost(BaseCost):
    """`weight` x sum of absolute deviations from the segment median (per column).

    `weight` is a hyper-parameter besides `param`: adapters that copy the cost must carry it.
    """

    def __init__(self, param=None, weight=1.0, multivariate=False):
        self.weight = weight
        self.multivariate = multivariate  # one output column: the sum over the variables
        super().__init__(param)
        self.evaluation_type = "multivariate" if multivariate else "univariate"

    def _fit(self, X, y=None):
        # C-contiguous copy: numpy's summation order depends on the memory layout, and a user cost
        # should be a function of the values only (DESIGN s7: layout-dependent rounding at a
        # threshold of exactly 0 was a false alarm of the twin monitor)
        self.X_ = np.ascontiguousarray(as_2d_array(X), dtype=float)
        return self

    def _evaluate_optim_param(self, starts, ends):
        out = np.zeros((len(starts), self.X_.shape[1]))
        for i, (s, e) in enumerate(zip(starts, ends)):
            seg = self.X_[s:e]
            out[i] = np.abs(seg - np.median(seg, axis=0)).sum(axis=0)
        out = self.weight * out
        return out.sum(axis=1, keepdims=True) if self.multivariate else out

    def _evaluate_fixed_param(self, starts, ends):
        out = np.zeros((len(starts), self.X_.shape[1]))
        for i, (s, e) in enumerate(zip(starts, ends)):
            out[i] = np.abs(self.X_[s:e] - self.param).sum(axis=0)
        out = self.weight * out
        return out.sum(axis=1, keepdims=True) if self.multivariate else out


class LazySSECost(BaseCost):
    """Sum of squared deviations from the segment mean per column, computed directly from the rows
    (optimal-parameter mode only; satisfies the split inequality like every optimal-parameter cost).

    A *minimal* user cost: it does not override `_fit` and reads the data from the documented
    attribute `_X` ("the input data used for fitting") at evaluation time, as the repository's own
    test doubles do.  Anything that bypasses the public `fit` of a cost shows here.
    """

    def __init__(self, param=None):
        super().__init__(param)

    def _evaluate_optim_param(self, starts, ends):
        X = np.ascontiguousarray(as_2d_array(self._X), dtype=float)
        out = np.zeros((len(starts), X.shape[1]))
        for i, (s, e) in enumerate(zip(starts, ends)):
            out[i] = ((X[s:e] - X[s:e].mean(axis=0)) ** 2).sum(axis=0)
        return out

    def _evaluate_fixed_param(self, starts, ends):
        raise NotImplementedError("LazySSECost has no fixed-parameter mode")


class ScaledSSECost(BaseCost):
    """Sum of squared deviations from the SEGMENT mean, divided by the fixed parameter (a known
    variance) when one is given.  With a fixed parameter the cost is still NOT additive over rows (the
    mean is estimated from the evaluated rows): anything that assumes 'fixed parameter => sum over
    rows' shows here."""

    def __init__(self, param=None):
        super().__init__(param)

    def _fit(self, X, y=None):
        self.X_ = np.ascontiguousarray(as_2d_array(X), dtype=float)
        return self

    def _sse(self, starts, ends):
        out = np.zeros((len(starts), self.X_.shape[1]))
        for i, (s, e) in enumerate(zip(starts, ends)):
            out[i] = ((self.X_[s:e] - self.X_[s:e].mean(axis=0)) ** 2).sum(axis=0)
        return out

    def _evaluate_optim_param(self, starts, ends):
        return self._sse(starts, ends)

    def _evaluate_fixed_param(self, starts, ends):
        return self._sse(starts, ends) / float(self.param)


class ModeCost(BaseCost):
    """Number of samples different from the segment's most frequent value.

    Integer valued: ties everywhere on small-alphabet data.
    """

    def __init__(self, param=None):
        super().__init__(param)

    def _fit(self, X, y=None):
        self.X_ = as_2d_array(X)
        return self

    def _evaluate_optim_param(self, starts, ends):
        out = np.zeros((len(starts), self.X_.shape[1]))
        for i, (s, e) in enumerate(zip(starts, ends)):
            for j in range(self.X_.shape[1]):
                _, counts = np.unique(self.X_[s:e, j], return_counts=True)
                out[i, j] = (e - s) - counts.max()
        return out


def _closure_cost_table(n, rng, maxinc, zero_prob):
    """Integer table C[s,e] with C(s,e) >= C(s,k)+C(k,e) for all s<k<e."""
    C = np.zeros((n + 1, n + 1), dtype=np.int64)
    for length in range(1, n + 1):
        for s in range(0, n - length + 1):
            e = s + length
            base = 0
            for k in range(s + 1, e):
                v = C[s, k] + C[k, e]
                if v > base:
                    base = v
            inc = 0 if rng.random() < zero_prob else int(rng.integers(0, maxinc + 1))
            C[s, e] = base + inc
    return C


class ClosureTableCost(BaseCost):
    """Integer table cost made super-additive by closure (many exact ties).

    The table depends on (seed, n, column) only, not on the data values.
    """

    def __init__(self, seed=0, maxinc=3, zero_prob=0.5, param=None, offset=0, multivariate=False):
        self.seed = seed
        self.maxinc = maxinc
        self.zero_prob = zero_prob
        self.offset = offset  # subtracting offset*(e-s) keeps the split inequality, makes costs negative
        self.multivariate = multivariate  # declared multivariate: ONE output column (sum of the tables)
        super().__init__(param)
        self.evaluation_type = "multivariate" if multivariate else "univariate"

    def _fit(self, X, y=None):
        X = as_2d_array(X)
        n, p = X.shape
        self.tables_ = [
            _closure_cost_table(
                n, np.random.default_rng([self.seed, n, j]), self.maxinc, self.zero_prob
            )
            for j in range(p)
        ]
        return self

    def _evaluate_optim_param(self, starts, ends):
        vals = np.column_stack([T[starts, ends] for T in self.tables_]).astype(float)
        vals = vals - self.offset * (ends - starts).reshape(-1, 1)
        return vals.sum(axis=1, keepdims=True) if self.multivariate else vals


def _closure_saving_table(n, rng, maxval, zero_prob):
    """Non-negative integer table with S(s,e) <= S(s,k)+S(k,e)."""
    S = np.zeros((n + 1, n + 1), dtype=np.int64)
    for length in range(1, n + 1):
        for s in range(0, n - length + 1):
            e = s + length
            if length == 1:
                S[s, e] = 0 if rng.random() < zero_prob else int(rng.integers(0, maxval + 1))
                continue
            cap = min(S[s, k] + S[k, e] for k in range(s + 1, e))
            r = rng.random()
            if r < 0.35:
                S[s, e] = cap  # additive: ties with the split
            else:
                S[s, e] = int(rng.integers(0, cap + 1))
    return S


class ClosureTableSaving(BaseSaving):
    """Non-negative, sub-additive integer table saving, one table per column."""

    def __init__(self, seed=0, maxval=6, zero_prob=0.4, n_params=1):
        self.seed = seed
        self.maxval = maxval
        self.zero_prob = zero_prob
        self.n_params = n_params
        super().__init__()

    def get_param_size(self, p):
        return self.n_params * p

    def _fit(self, X, y=None):
        X = as_2d_array(X)
        n, p = X.shape
        self.tables_ = [
            _closure_saving_table(
                n, np.random.default_rng([self.seed, n, j, 11]), self.maxval, self.zero_prob
            )
            for j in range(p)
        ]
        return self

    def _evaluate(self, cuts):
        s, e = cuts[:, 0], cuts[:, 1]
        return np.column_stack([T[s, e] for T in self.tables_]).astype(float)


def _hash_vals(seed, cols, modulus, signed=False):
    h = np.full(cols[0].shape, np.uint64(seed * 2654435761 % (2**32) + 12345), dtype=np.uint64)
    for c in cols:
        h = (h ^ c.astype(np.uint64)) * np.uint64(1099511628211)
        h = h ^ (h >> np.uint64(29))
    v = (h % np.uint64(modulus)).astype(np.int64)
    return v - modulus // 2 if signed else v  # signed: genuinely negative scores in some columns


class HashChangeScore(BaseChangeScore):
    """Arbitrary integer-valued change score: a seeded hash of (start, split, end, column)."""

    def __init__(self, seed=0, modulus=7, minsize=1, multivariate=False, signed=False):
        self.seed = seed
        self.modulus = modulus
        self.minsize = minsize
        self.multivariate = multivariate
        self.signed = signed
        # an inherently multivariate score returns ONE column whatever the number of variables
        self.evaluation_type = "multivariate" if multivariate else "univariate"
        super().__init__()

    @property
    def min_size(self):
        return self.minsize

    def _fit(self, X, y=None):
        self.p_ = 1 if self.multivariate else as_2d_array(X).shape[1]
        return self

    def _evaluate(self, cuts):
        cols = [cuts[:, 0], cuts[:, 1], cuts[:, 2]]
        return np.column_stack(
            [_hash_vals(self.seed + 31 * j, cols, self.modulus, self.signed) for j in range(self.p_)]
        ).astype(float)


class HashLocalAnomalyScore(BaseLocalAnomalyScore):
    """Arbitrary integer-valued local anomaly score: seeded hash of the 4-point cut."""

    def __init__(self, seed=0, modulus=7, multivariate=False, signed=False):
        self.seed = seed
        self.modulus = modulus
        self.multivariate = multivariate
        self.signed = signed
        self.evaluation_type = "multivariate" if multivariate else "univariate"
        super().__init__()

    def _fit(self, X, y=None):
        self.p_ = 1 if self.multivariate else as_2d_array(X).shape[1]
        return self

    def _evaluate(self, cuts):
        cols = [cuts[:, 0], cuts[:, 1], cuts[:, 2], cuts[:, 3]]
        return np.column_stack(
            [_hash_vals(self.seed + 31 * j, cols, self.modulus, self.signed) for j in range(self.p_)]
        ).astype(float)


class ScriptedChangeDetector(ChangeDetector):
    """A user-defined change detector that reports given changepoints (those < n)."""

    _tags = {"fit_is_empty": False, "capability:multivariate": True}

    def __init__(self, changepoints=()):
        self.changepoints = changepoints
        super().__init__()

    def _fit(self, X, y=None):
        self.n_fit_ = len(X)
        return self

    def _predict(self, X):
        n = len(X)
        cpts = sorted({int(c) for c in self.changepoints if 0 < int(c) < n})
        return ChangeDetector._format_sparse_output(cpts)


# --------------------------------------------------------------------------
# user penalty callables for MVCAPA (documented interface: n, p, n_params, scale)
# --------------------------------------------------------------------------
def pen_const_only(n, p, n_params=1, scale=1.0):
    return scale * 3.0, np.zeros(p)


def pen_equal_betas(n, p, n_params=1, scale=1.0):
    return scale * 2.0, np.full(p, scale * 1.0)


def pen_decreasing_betas(n, p, n_params=1, scale=1.0):
    return scale * 1.0, scale * np.arange(p, 0, -1).astype(float)


def pen_increasing_betas(n, p, n_params=1, scale=1.0):
    return scale * 1.0, scale * np.arange(1, p + 1).astype(float)


def pen_zero(n, p, n_params=1, scale=1.0):
    return 0.0, np.zeros(p)


def pen_zero_alpha_equal_betas(n, p, n_params=1, scale=1.0):
    return 0.0, np.full(p, scale * 2.0)


def pen_mixed(n, p, n_params=1, scale=1.0):
    b = np.zeros(p)
    b[::2] = scale * 2.0
    b[1::2] = scale * 0.5
    return scale * 1.5, b


# user statistics for the anomaliser
def stat_range(x):
    return float(np.max(x) - np.min(x))


def stat_first(x):
    return float(x[0])


def stat_sum(x):
    return float(np.sum(x))


def stat_std1(x):
    """sample standard deviation: undefined (NaN) on a one-sample segment"""
    with np.errstate(all="ignore"):
        import warnings

        with warnings.catch_warnings():
            warnings.simplefilter("ignore")
            return float(np.std(x, ddof=1))


FUNCTIONS = {
    f.__name__: f
    for f in [
        pen_const_only, pen_equal_betas, pen_decreasing_betas, pen_increasing_betas,
        pen_zero, pen_zero_alpha_equal_betas, pen_mixed, stat_range, stat_first, stat_sum, stat_std1,
    ]
}
FUNCTIONS.update({"np.mean": np.mean, "np.median": np.median, "np.max": np.max,
                  "np.min": np.min, "np.std": np.std, "np.var": np.var, "np.sum": np.sum, "np.ptp": np.ptp})
