"""Runtime-monitoring machinery for the skchange properties (see /verif/DESIGN.md)."""
import os
import sys

VERIF_ROOT = os.path.dirname(os.path.dirname(os.path.abspath(__file__)))
REPO_ROOT = os.environ.get("VERIF_REPO_ROOT", "/repo")


def bootstrap():
    """Make the repository working tree and the contract library importable.

    The working tree goes first on sys.path (so what is imported is the current
    tree, not a stale install); the contract library goes last so that it can
    never shadow a package of the repository's own environment.
    """
    if REPO_ROOT not in sys.path:
        sys.path.insert(0, REPO_ROOT)
    deps = os.path.join(VERIF_ROOT, ".deps")
    if deps not in sys.path:
        sys.path.append(deps)
