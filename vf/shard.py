"""One shard of one check, run as a child process of vf.cli."""
import argparse
import faulthandler
import importlib
import json
import os
import sys
import traceback

from vf import bootstrap


def _prepare():
    bootstrap()
    import warnings

    warnings.filterwarnings("ignore")
    import numpy as np

    np.seterr(all="ignore")  # numeric events are observed by vf.instrument, not raised


def main(argv=None):
    ap = argparse.ArgumentParser()
    ap.add_argument("prop")
    ap.add_argument("--tier", required=True)
    ap.add_argument("--seed", type=int, required=True)
    ap.add_argument("--shard", type=int, required=True)
    ap.add_argument("--nshards", type=int, required=True)
    ap.add_argument("--out", required=True)
    a = ap.parse_args(argv)
    faulthandler.enable()
    _prepare()
    from vf.core import Ctx

    mod = importlib.import_module(f"vf.checks.{a.prop.lower()}")
    ctx = Ctx(a.prop, a.tier, a.seed, a.shard, a.nshards)
    from vf import instrument, reach

    instrument.install()
    reach.start()
    try:
        mod.run(ctx)
    except Exception:
        traceback.print_exc()
        return 4  # harness failure: inconclusive, never a violation
    res = ctx.result()
    res["reach"] = reach.report(getattr(mod, "ANCHORS", []))
    res["contract_evaluations"] = dict(instrument.COUNTS)
    with open(a.out, "w") as f:
        json.dump(res, f)
    d = os.environ.get("VERIF_REACH_DUMP")
    if d:  # blind-spot map over all checks (tools/coverage_gaps.py); evidence only
        os.makedirs(d, exist_ok=True)
        with open(os.path.join(d, f"{a.prop}.{a.tier}.{a.shard}.json"), "w") as f:
            json.dump(reach.dump_all(), f)
    return 0


def replay_main(prop, path):
    _prepare()
    from vf.core import Ctx

    mod = importlib.import_module(f"vf.checks.{prop.lower()}")
    with open(path) as f:
        v = json.load(f)
    ctx = Ctx(prop, v.get("tier", os.environ.get("VERIF_TIER", "quick")), 0, replay=True)
    mod.replay(ctx, v["sub"], v["recipe"])
    if ctx.violations:
        print(f"VIOLATION property={prop} replay={path}")
        for w in ctx.violations:
            print(json.dumps(w, indent=1)[:6000])
        return 1
    print(f"replay of {path}: no violation on the current tree")
    return 0


if __name__ == "__main__":
    sys.exit(main())
