#!/bin/sh
# Offline install of the contract library beside the repository's interpreter.
# Idempotent; every check calls it too (vp check restores committed files only).
set -e
cd "$(dirname "$0")"
if [ ! -d .deps/icontract ]; then
  PIP_NO_INDEX=1 /venv/bin/pip install --quiet --no-index --find-links /opt/veriftools/wheels \
      --target .deps icontract >/dev/null 2>&1 || {
      echo "setup: could not install icontract from the offline wheelhouse" >&2; exit 3; }
fi
mkdir -p evidence replays
exit 0
