#!/bin/bash
# usage: tools/mutate.sh <patch-file|-e 'sed-expr' file> -- <check args...>
# Copies /repo's working tree to a scratch dir outside /repo and /verif, applies the
# change there, runs ./check against it (VERIF_REPO_ROOT), removes the copy.
set -u
scratch=$(mktemp -d /tmp/skmut.XXXXXX)
trap 'rm -rf "$scratch"' EXIT
rsync -a --exclude .git --exclude '__pycache__' /repo/ "$scratch/"
if [ "$1" = "-e" ]; then
  sed -i -E "$2" "$scratch/$3" || exit 9
  if diff -q "/repo/$3" "$scratch/$3" >/dev/null; then echo "MUTATION DID NOT CHANGE FILE"; exit 9; fi
  shift 3
else
  (cd "$scratch" && patch -p1 -s < "$1") || exit 9
  shift 1
fi
[ "$1" = "--" ] && shift
cd /verif
if [ "${1:-}" = "pytest" ]; then
  (cd "$scratch" && PYTHONPATH="$scratch" /venv/bin/python -m pytest -q -x -p no:cacheprovider --timeout=900 2>&1 | tail -3)
  exit 0
fi
rc=0
for c in "$@"; do
  VERIF_EVIDENCE_DIR="$scratch/evidence" VERIF_REPO_ROOT="$scratch" ./check "$c" --tier "${TIER:-quick}" > "$scratch/out.txt" 2>&1; r=$?
  echo "== $c exit=$r: $(grep -c '^VIOLATION' "$scratch/out.txt") violation lines; $(grep -m1 '^VIOLATION' "$scratch/out.txt" | cut -c1-300)"
  [ $r -eq 2 ] && grep -m3 INCONCLUSIVE "$scratch/out.txt" | cut -c1-400
  [ $r -ne 0 ] && rc=1
done

exit $rc
