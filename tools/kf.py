#!/usr/bin/env python3
"""tools/kf.py <prop> <key> <open|fixed> <commit|-> <what...>  -- add/replace a known-findings entry"""
import json, sys
p = '/verif/known_findings.json'
d = json.load(open(p))
prop, key, status, commit = sys.argv[1:5]
what = " ".join(sys.argv[5:])
if status == "fixed":
    what = f"fixed: property={prop} {commit} {what}"
d['findings'] = [f for f in d['findings'] if not (f['property'] == prop and f['key'] == key)]
e = {"property": prop, "key": key, "status": status, "what": what}
if commit != "-":
    e["commit"] = commit
d['findings'].append(e)
json.dump(d, open(p, 'w'), indent=1)
print(len(d['findings']), "entries")
