#!/bin/bash
# tools/sweep.sh <tier> <seed...> : run every registered check for each seed; print non-held results
tier=$1; shift
cd "$(dirname "$0")/.."
export VERIF_EVIDENCE_DIR=$(pwd)/.work/sweep-evidence
for seed in "$@"; do
  for p in $(python3 -c "import json;print(' '.join(c['property_id'] for c in json.load(open('MANIFEST.json'))['checks']))"); do
    s=$(date +%s); VERIF_SEED=$seed ./check $p --tier $tier > .work_sweep_$p.out 2>&1; rc=$?; e=$(date +%s)
    if [ $rc -ne 0 ]; then echo "seed=$seed $p exit=$rc $((e-s))s"; grep -E '^(VIOLATION|INCONCLUSIVE)' .work_sweep_$p.out | head -5 | cut -c1-700; else echo "seed=$seed $p held $((e-s))s"; fi
    rm -f .work_sweep_$p.out
  done
done
