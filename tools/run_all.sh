#!/bin/bash
# tools/run_all.sh [tier] : run every registered check once, report exit codes and timings
tier=${1:-quick}
cd /verif
for p in $(python3 -c "import json;print(' '.join(c['property_id'] for c in json.load(open('MANIFEST.json'))['checks']))"); do
  s=$(date +%s); ./check $p --tier $tier > .work_$p.out 2>&1; rc=$?; e=$(date +%s)
  echo "$p exit=$rc $((e-s))s $(grep -c '^VIOLATION' .work_$p.out) viol $(grep -c '^KNOWN-FINDING' .work_$p.out) known $(grep -m1 INCONCLUSIVE .work_$p.out | cut -c1-150)"
  rm -f .work_$p.out
done
