#!/usr/bin/env python3
"""Regenerate /verif/MANIFEST.json from the check modules' metadata (keeps it valid)."""
import ast, json, os, re, sys
ROOT = os.path.dirname(os.path.dirname(os.path.abspath(__file__)))
props = [json.loads(l) for l in open(os.path.join(ROOT, "properties.jsonl"))]
META = json.load(open(os.path.join(ROOT, "tools", "manifest_meta.json")))
checks, na = [], []
for p in props:
    pid = p["id"]
    mod = os.path.join(ROOT, "vf", "checks", pid.lower() + ".py")
    m = META.get(pid)
    if not os.path.exists(mod) or m is None or m.get("not_applicable"):
        na.append({"property_id": pid, "reason": (m or {}).get(
            "not_applicable", "check not built yet (work in progress in this session)")})
        continue
    checks.append({
        "property_id": pid,
        "quick_cmd": f"./check {pid} --tier quick",
        "thorough_cmd": f"./check {pid} --tier thorough",
        "evidence_file": f"/verif/evidence/{pid}.json",
        "replay_cmd_template": f"./check {pid} --replay {{path}}",
        "engine": "vf",
        "level_claimed": {"category": "exploration", "text": m["text"], "design_ref": m["design_ref"]},
        "level_note": m["note"],
        "technique": m["technique"],
    })
manifest = {
    "version": 1,
    "setup_cmd": "./setup.sh",
    "hooks": {
        "guard": "SKCHANGE_VERIF",
        "enable": "harness-side only: vf.instrument.install() applies icontract post-conditions, the "
                  "evaluate trace and reach probes to the imported classes when SKCHANGE_VERIF=1 "
                  "(set by ./check for its child processes); /repo carries no hook code, checks import "
                  "the working tree directly (PYTHONPATH=/repo, nothing to build)",
        "baseline_off_cmd": "cd /repo && /venv/bin/python -m pytest -ra -q -p no:cacheprovider "
                            "--timeout=900 --continue-on-collection-errors",
        "source_commits": [],
        "add_only": True,
    },
    "engines": [{
        "name": "vf", "path": "/verif/vf",
        "serves_properties": [c["property_id"] for c in checks],
        "kind_free_text": "runtime monitors on the real code: icontract contracts on public methods, "
                          "recorded evaluate traces, executable reference models, twin-object and "
                          "metamorphic pair monitors, driven by seeded and partly exhaustive workloads",
    }],
    "checks": checks,
    "not_applicable": na,
    "notes": "Exit codes: 0 held, 1 VIOLATION, 2 INCONCLUSIVE (monitor observed too little; never "
             "folded into held). Known findings: /verif/known_findings.json (matched by mechanism key).",
}
json.dump(manifest, open(os.path.join(ROOT, "MANIFEST.json"), "w"), indent=1)
print(f"MANIFEST.json: {len(checks)} checks, {len(na)} not_applicable")
try:
    import jsonschema
    jsonschema.validate(manifest, json.load(open("/root/.vp/MANIFEST.schema.json")))
    print("schema: valid")
except ImportError:
    print("jsonschema not importable here; run with python3-vt")
