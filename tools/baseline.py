#!/venv/bin/python
"""Run the repository's own suite with the guard OFF and compare with BASELINE.json."""
import json, os, subprocess, sys, tempfile
import xml.etree.ElementTree as ET

base = json.load(open("/root/.vp/BASELINE.json"))
stable = set(base["stable_pass"])
fd, path = tempfile.mkstemp(suffix=".xml"); os.close(fd)
env = dict(os.environ); env.pop("SKCHANGE_VERIF", None)
root = sys.argv[1] if len(sys.argv) > 1 else "/repo"
env["PYTHONPATH"] = root
subprocess.run(["/venv/bin/python", "-m", "pytest", "-q", "-p", "no:cacheprovider", "--timeout=900",
                "--continue-on-collection-errors", f"--junitxml={path}", "skchange"], cwd=root, env=env,
               stdout=subprocess.DEVNULL, stderr=subprocess.DEVNULL)
passed = set()
for tc in ET.parse(path).getroot().iter("testcase"):
    if not any(ch.tag in ("failure", "error", "skipped") for ch in tc):
        passed.add(f"{tc.get('classname')}::{tc.get('name')}")
os.remove(path)
missing = sorted(stable - passed)
print(f"baseline: {len(stable & passed)}/{len(stable)} stable tests pass; {len(passed)} passed in total")
for m in missing[:20]:
    print("  NOT PASSING:", m)
sys.exit(1 if missing else 0)
