#!/bin/bash
# tools/seed.sh <Cxx> [name] [extra checks...] : confirm a sub-agent's change in /tmp/wt/<Cxx> and keep it
# under /verif/seeded/<name>/ (patch.diff, demo.py, NOTES.md, meta.json with what was run).
set -u
prop=$1; name=${2:-$prop-a}; shift; shift 2>/dev/null
wt=${WT:-/tmp/wt}/$prop
out=/verif/seeded/$name
cd $wt || exit 2
git diff -- skchange > ${WT:-/tmp/wt}/$name.patch
[ -s ${WT:-/tmp/wt}/$name.patch ] || { echo "no tracked change in $wt"; exit 2; }
[ -f demo.py ] || { echo "no demo.py"; exit 2; }
PYTHONPATH=$wt timeout 600 /venv/bin/python demo.py > ${WT:-/tmp/wt}/$name.demo_with.txt 2>&1; with=$?
git apply -R ${WT:-/tmp/wt}/$name.patch   # (no git stash: the stash stack is shared between worktrees)
PYTHONPATH=$wt timeout 600 /venv/bin/python demo.py > ${WT:-/tmp/wt}/$name.demo_without.txt 2>&1; without=$?
git apply ${WT:-/tmp/wt}/$name.patch
base=$(/verif/tools/baseline.py $wt | head -1)
echo "demo with change: exit=$with ; without: exit=$without ; $base"
results=""
cd /verif
for c in $prop "$@"; do
  VERIF_EVIDENCE_DIR=${WT:-/tmp/wt}/ev VERIF_REPO_ROOT=$wt ./check $c > ${WT:-/tmp/wt}/$name.$c.out 2>&1; rc=$?
  line="$c exit=$rc violations=$(grep -c '^VIOLATION' ${WT:-/tmp/wt}/$name.$c.out) first=$(grep -m1 '^VIOLATION' ${WT:-/tmp/wt}/$name.$c.out | sed 's/.*# //' | cut -c1-260)"
  echo "  $line"
  results="$results$line\n"
done

mkdir -p $out
cp ${WT:-/tmp/wt}/$name.patch $out/patch.diff; cp $wt/demo.py $out/demo.py; for f in MUTATION_NOTES.md NOTES.md; do [ -f $wt/$f ] && { cp $wt/$f $out/NOTES.md; break; }; done
python3 - "$prop" "$name" "$with" "$without" "$base" "$results" <<'PY'
import json,sys
prop,name,w,wo,base,res=sys.argv[1:7]
meta={"property":prop,"name":name,"demo_exit_with_change":int(w),"demo_exit_without_change":int(wo),
      "repo_tests_with_change":base,"checks_run_against_change":[l for l in res.split("\\n") if l],
      "needs_to_manifest":"see NOTES.md","confirmed":int(w)!=0 and int(wo)==0 and "906/906" in base}
import os
old=f"/verif/seeded/{name}/meta.json"
if os.path.exists(old):  # keep what was written by hand on an earlier run
    o=json.load(open(old))
    for k in ("needs_to_manifest","round","note","breaks_property","what_was_run"):
        if k in o and (k!="needs_to_manifest" or o[k]!="see NOTES.md"): meta[k]=o[k]
json.dump(meta,open(f"/verif/seeded/{name}/meta.json","w"),indent=1)
print("confirmed:",meta["confirmed"])
PY
