#!/venv/bin/python
"""tools/floors.py [evidence-dir] : print each check's floors next to the counters of the evidence files
(used to keep floors at about half of what a run observes)."""
import importlib, json, os, sys
sys.path.insert(0, "/verif"); sys.path.insert(0, "/verif/.deps")
import vf; vf.bootstrap()
d = sys.argv[1] if len(sys.argv) > 1 else "/verif/evidence"
for i in range(1, 19):
    p = f"{d}/C{i:02d}.json"
    if not os.path.exists(p):
        continue
    e = json.load(open(p))
    mod = importlib.import_module(f"vf.checks.c{i:02d}")
    fl = mod.FLOORS.get(e["tier"], {})
    obs = dict(e["coverage"]["observed"]); obs["distinct_nontrivial"] = e["coverage"]["distinct_nontrivial"]
    obs["evaluations"] = e["coverage"]["evaluations"]
    row = {k: f"{obs.get(k, 0)}/{v}" + ("  <<LOW" if obs.get(k, 0) < 1.4 * v else ("  >>" if obs.get(k, 0) > 4 * v else "")) for k, v in fl.items()}
    print(e["property_id"], e["tier"], f"{e['wall_s']}s", e["verdict"], json.dumps(row))
