#!/usr/bin/env python3
"""tools/selftest.py [--tier quick] [--all-checks] [name ...]
Mutant self-test (DESIGN s8.2): every change kept under /verif/seeded/<name>/ is applied to a
scratch copy of /repo (outside /repo and /verif), the property's check is run against it with
VERIF_REPO_ROOT, exit 1 + a VIOLATION line is required, and the copy is removed."""
import json, os, shutil, subprocess, sys, tempfile
from concurrent.futures import ThreadPoolExecutor

ROOT = "/verif"
args = sys.argv[1:]
tier = "quick"
if "--tier" in args:
    i = args.index("--tier"); tier = args[i + 1]; del args[i:i + 2]
extra = []
if "--also" in args:
    i = args.index("--also"); extra = args[i + 1].split(","); del args[i:i + 2]
names = args or sorted(d for d in os.listdir(f"{ROOT}/seeded") if os.path.isdir(f"{ROOT}/seeded/{d}"))


def run(name):
    meta = json.load(open(f"{ROOT}/seeded/{name}/meta.json"))
    scratch = tempfile.mkdtemp(prefix="skmut.", dir="/tmp")
    try:
        subprocess.run(["rsync", "-a", "--exclude", ".git", "--exclude", "__pycache__", "/repo/", scratch + "/"], check=True)
        p = subprocess.run(["patch", "-p1", "-s", "-i", f"{ROOT}/seeded/{name}/patch.diff"], cwd=scratch,
                           capture_output=True, text=True)
        if p.returncode != 0:
            return name, meta["property"], "PATCH-FAILED", p.stdout[-200:]
        res = []
        for c in [meta["property"]] + extra:
            env = dict(os.environ, VERIF_REPO_ROOT=scratch, VERIF_EVIDENCE_DIR=scratch + "/evidence")
            cp = subprocess.run([f"{ROOT}/check", c, "--tier", tier], cwd=ROOT, env=env, capture_output=True, text=True)
            first = next((l for l in cp.stdout.splitlines() if l.startswith("VIOLATION")), "")
            res.append((c, cp.returncode, first.split("# ", 1)[-1][:160]))
        return name, meta["property"], res, ""
    finally:
        shutil.rmtree(scratch, ignore_errors=True)


missed = 0
with ThreadPoolExecutor(max_workers=3) as ex:
    for name, prop, res, err in ex.map(run, names):
        if isinstance(res, str):
            print(f"{name:45s} {res} {err}"); missed += 1; continue
        own = res[0]
        status = "CAUGHT" if own[1] == 1 else ("INCONCLUSIVE" if own[1] == 2 else "MISSED")
        if own[1] != 1:
            missed += 1
        others = " ".join(f"{c}:{rc}" for c, rc, _ in res[1:])
        print(f"{name:45s} {prop} {status:8s} {others} {own[2]}")
print(f"{len(names) - missed}/{len(names)} caught by the property's own check")
sys.exit(1 if missed else 0)
