#!/usr/bin/env python3
"""tools/coverage_gaps.py <dir> : merge the reach dumps written with VERIF_REACH_DUMP=<dir> by every shard of every
check and list the statement lines of skchange's non-test modules that NO check executed (blind spots of the workloads).
Lines inside nested functions / comprehensions are not monitored and not listed."""
import glob, json, sys, collections
d = sys.argv[1]
hit = collections.defaultdict(set); allv = {}; meta = {}; calls = collections.Counter()
for f in glob.glob(d + "/*.json"):
    for name, r in json.load(open(f)).items():
        hit[name] |= set(r["hit"]); allv[name] = set(r["all"]); meta[name] = (r["file"], r["first"]); calls[name] += r["calls"]
tot = sum(len(v) for v in allv.values()); got = sum(len(hit[n] & allv[n]) for n in allv)
print(f"{len(allv)} functions, {got}/{tot} statement lines executed by at least one check")
for n in sorted(allv):
    miss = sorted(allv[n] - hit[n])
    if miss:
        print(f"{'NEVER-CALLED ' if calls[n]==0 else ''}{n} {meta[n][0].split('skchange/',1)[-1]}: missing {miss}")
